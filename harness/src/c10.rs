//! C10 — every place a frame can be suspended has a correct-looking stack map.
//! asmscan: parser for the assembly `dora compile -S` writes + checks of the metadata tables.
//! Also serves C19's program-level part (label uniqueness / validity).

use crate::runner::*;
use crate::vcore::*;
use serde_json::{Value, json};
use std::collections::{BTreeMap, HashMap, HashSet};
use std::time::Duration;

#[derive(Default, Debug)]
pub struct FnCode {
    pub name: String,
    pub bytes: Vec<u8>,
    /// (offset, target symbol)
    pub relocs: Vec<(usize, String)>,
    pub global: bool,
}

#[derive(Default, Debug)]
pub struct Asm {
    pub fns: Vec<FnCode>,
    pub labels: Vec<String>,
    pub sections: HashMap<String, Vec<i64>>, // .long/.quad numeric payload per section (symbols as i64::MIN markers)
    pub section_syms: HashMap<String, Vec<String>>, // symbolic .quad operands per section, in order
    pub end_labels: HashMap<String, (String, usize)>, // end label -> (function, offset)
}

pub fn parse_asm(text: &str) -> Asm {
    let mut a = Asm::default();
    let mut section = ".text".to_string();
    let mut cur: Option<usize> = None;
    let mut pending_global: HashSet<String> = HashSet::new();
    for line in text.lines() {
        let t = line.trim();
        if t.is_empty() || t.starts_with('#') || t.starts_with("//") {
            continue;
        }
        if t == ".text" {
            section = ".text".into();
            continue;
        }
        if let Some(rest) = t.strip_prefix(".section") {
            section = rest.trim().split(',').next().unwrap_or("").trim().to_string();
            cur = None;
            continue;
        }
        if let Some(rest) = t.strip_prefix(".globl") {
            pending_global.insert(rest.trim().to_string());
            continue;
        }
        if t.ends_with(':') && !t.starts_with('.') || (t.ends_with(':') && t.starts_with(".L")) {
            let name = t.trim_end_matches(':').to_string();
            a.labels.push(name.clone());
            if section == ".text" {
                if name.starts_with(".L") {
                    // local label inside / at the end of the current function
                    if let Some(ci) = cur {
                        let off = a.fns[ci].bytes.len();
                        let fname = a.fns[ci].name.clone();
                        a.end_labels.insert(name, (fname, off));
                    }
                } else {
                    a.fns.push(FnCode { name: name.clone(), global: pending_global.contains(&name), ..Default::default() });
                    cur = Some(a.fns.len() - 1);
                }
            }
            continue;
        }
        if section == ".text" {
            if let Some(rest) = t.strip_prefix(".byte") {
                if let Some(ci) = cur {
                    for b in rest.split(',') {
                        let b = b.trim();
                        let v = if let Some(h) = b.strip_prefix("0x") { u8::from_str_radix(h, 16).unwrap_or(0) } else { b.parse::<u8>().unwrap_or(0) };
                        a.fns[ci].bytes.push(v);
                    }
                }
            } else if let Some(rest) = t.strip_prefix(".reloc") {
                // name+off, KIND, target - 4
                let parts: Vec<&str> = rest.split(',').map(|s| s.trim()).collect();
                if parts.len() >= 3 {
                    let (sym, off) = match parts[0].rsplit_once('+') {
                        Some((s, o)) => (s.to_string(), o.parse::<usize>().unwrap_or(0)),
                        None => (parts[0].to_string(), 0),
                    };
                    let target = parts[2].split_whitespace().next().unwrap_or("").to_string();
                    if let Some(f) = a.fns.iter_mut().rev().find(|f| f.name == sym) {
                        f.relocs.push((off, target));
                    }
                }
            }
            continue;
        }
        // data sections: collect .long / .quad payloads
        if let Some(rest) = t.strip_prefix(".long").or_else(|| t.strip_prefix(".quad")) {
            let v = rest.trim();
            let e = a.sections.entry(section.clone()).or_default();
            match v.parse::<i64>() {
                Ok(n) => e.push(n),
                Err(_) => match v.parse::<u64>() {
                    Ok(n) => e.push(n as i64),
                    Err(_) => {
                        e.push(i64::MIN);
                        a.section_syms.entry(section.clone()).or_default().push(v.to_string());
                    }
                },
            }
        }
    }
    a
}

#[derive(Debug, Clone)]
pub struct FnEntry {
    pub start: String,
    pub end: String,
    pub kind: i64,
    pub gc_start: usize,
    pub gc_len: usize,
    pub loc_start: usize,
    pub loc_len: usize,
    pub inl_start: usize,
    pub inl_len: usize,
}

pub fn function_table(a: &Asm) -> Result<Vec<FnEntry>, String> {
    let words = a.sections.get(".dora.functions").ok_or("no .dora.functions section")?;
    let syms = a.section_syms.get(".dora.functions").cloned().unwrap_or_default();
    if words.len() % 12 != 0 {
        return Err(format!(".dora.functions has {} words, not a multiple of 12", words.len()));
    }
    let mut out = vec![];
    let mut si = 0;
    for ch in words.chunks(12) {
        if ch[0] != i64::MIN || ch[1] != i64::MIN {
            return Err("function entry without start/end symbols".into());
        }
        let start = syms.get(si).cloned().unwrap_or_default();
        let end = syms.get(si + 1).cloned().unwrap_or_default();
        si += 2;
        out.push(FnEntry { start, end, kind: ch[3], gc_start: ch[5] as usize, gc_len: ch[6] as usize, loc_start: ch[7] as usize, loc_len: ch[8] as usize, inl_start: ch[9] as usize, inl_len: ch[10] as usize });
    }
    Ok(out)
}

const NO_MAP_TARGETS: &[&str] = &["dora_aot_trap_trampoline", "dora_aot_stack_overflow_trampoline", "dora_aot_unreachable_trampoline", "dora_aot_fatal_error_trampoline", "dora_aot_write_barrier_slow_path"];

/// x64: instruction starts via a linear sweep done by objdump; returns (call return offsets with target kind, stack extent)
pub struct Calls {
    /// (return offset, description, needs_map)
    pub sites: Vec<(usize, String, bool)>,
    pub extent: i64,
    pub undecodable: bool,
}

pub fn x64_calls(f: &FnCode, insns: &[(usize, usize, String)]) -> Calls {
    // insns: (offset, len, text) for this function
    let reloc_at: HashMap<usize, &String> = f.relocs.iter().map(|(o, t)| (*o, t)).collect();
    let mut sites = vec![];
    let mut extent: i64 = 0;
    let mut starts: HashSet<usize> = HashSet::new();
    for (off, len, text) in insns {
        starts.insert(*off);
        let t = text.trim();
        if t.starts_with("call") {
            let ret = off + len;
            if f.bytes.get(*off) == Some(&0xe8) {
                let target = reloc_at.get(&(off + 1)).map(|s| s.to_string()).unwrap_or_else(|| "<no reloc>".into());
                let needs = !NO_MAP_TARGETS.contains(&target.as_str());
                sites.push((ret, format!("call {target}"), needs));
            } else {
                sites.push((ret, format!("indirect {t}"), true));
            }
        } else if t.starts_with("sub") && t.ends_with(",%rsp") {
            if let Some(imm) = t.split('$').nth(1).and_then(|x| x.split(',').next()) {
                let v = if let Some(h) = imm.strip_prefix("0x") { i64::from_str_radix(h, 16).unwrap_or(0) } else { imm.parse().unwrap_or(0) };
                extent += v;
            }
        } else if t.starts_with("push") && !t.ends_with("%rbp") {
            extent += 8;
        }
    }
    // self-check of the sweep: every relocated direct call must coincide with a decoded call instruction
    let mut undecodable = false;
    for (o, target) in &f.relocs {
        if *o >= 1 && f.bytes.get(o - 1) == Some(&0xe8) && (target.starts_with("dora_")) && !starts.contains(&(o - 1)) {
            undecodable = true;
        }
    }
    Calls { sites, extent, undecodable }
}

pub fn arm64_calls(f: &FnCode) -> Calls {
    let reloc_at: HashMap<usize, &String> = f.relocs.iter().map(|(o, t)| (*o, t)).collect();
    let mut sites = vec![];
    let mut extent: i64 = 0;
    for (i, w) in f.bytes.chunks(4).enumerate() {
        if w.len() < 4 {
            break;
        }
        let w = u32::from_le_bytes([w[0], w[1], w[2], w[3]]);
        let off = i * 4;
        if w & 0xFC00_0000 == 0x9400_0000 {
            let target = reloc_at.get(&off).map(|s| s.to_string()).unwrap_or_else(|| "<no reloc>".into());
            let needs = !NO_MAP_TARGETS.contains(&target.as_str());
            sites.push((off + 4, format!("bl {target}"), needs));
        } else if w & 0xFFFF_FC1F == 0xD63F_0000 {
            sites.push((off + 4, "blr".into(), true));
        } else if w & 0xFF80_03FF == 0xD100_03FF {
            let imm = ((w >> 10) & 0xfff) as i64;
            extent += if (w >> 22) & 1 == 1 { imm << 12 } else { imm };
        } else if w & 0xFFC0_03E0 == 0xA980_03E0 {
            // stp x, y, [sp, #imm]!
            let imm7 = ((w >> 15) & 0x7f) as i64;
            let imm = if imm7 & 0x40 != 0 { imm7 - 128 } else { imm7 } * 8;
            if imm < 0 && (w & 0x1f) != 29 {
                extent += -imm;
            }
        } else if w & 0xFFE0_0FE0 == 0xF800_0FE0 {
            let imm9 = ((w >> 12) & 0x1ff) as i64;
            let imm = if imm9 & 0x100 != 0 { imm9 - 512 } else { imm9 };
            if imm < 0 {
                extent += -imm;
            }
        }
    }
    Calls { sites, extent, undecodable: false }
}

pub struct ScanStats {
    pub functions: usize,
    pub functions_with_maps: usize,
    pub call_sites: usize,
    pub indirect_calls: usize,
    pub slots: usize,
    pub undecodable: usize,
    pub labels: usize,
}

fn objdump_x64(scratch: &Scratch, asm_path: &std::path::Path) -> Result<HashMap<String, Vec<(usize, usize, String)>>, String> {
    let obj = scratch.file("scan.o");
    let mut cmd = std::process::Command::new("gcc");
    cmd.arg("-c").arg(asm_path).arg("-o").arg(&obj);
    let r = run_cmd(cmd, Duration::from_secs(120));
    if !r.ok() {
        return Err(format!("gcc -c failed: {}", truncate_str(&r.stderr_str(), 300)));
    }
    let mut cmd = std::process::Command::new("objdump");
    cmd.arg("-d").arg("-j").arg(".text").arg(&obj);
    let r = run_cmd(cmd, Duration::from_secs(120));
    if !r.ok() {
        return Err("objdump failed".into());
    }
    let out = r.stdout_str();
    let mut map: HashMap<String, Vec<(usize, usize, String)>> = HashMap::new();
    let mut cur: Option<(String, usize)> = None;
    for line in out.lines() {
        if line.ends_with(">:") {
            if let Some((addr, name)) = line.split_once(" <") {
                let addr = usize::from_str_radix(addr.trim(), 16).unwrap_or(0);
                cur = Some((name.trim_end_matches(">:").to_string(), addr));
                map.entry(name.trim_end_matches(">:").to_string()).or_default();
            }
            continue;
        }
        let Some((name, base)) = &cur else { continue };
        let mut parts = line.splitn(3, '\t');
        let (Some(a), Some(b)) = (parts.next(), parts.next()) else { continue };
        let Ok(addr) = usize::from_str_radix(a.trim().trim_end_matches(':'), 16) else { continue };
        let nbytes = b.split_whitespace().count();
        let text = parts.next().unwrap_or("").to_string();
        let v = map.get_mut(name).unwrap();
        if text.is_empty() {
            // continuation of the previous instruction
            if let Some(last) = v.last_mut() {
                last.1 += nbytes;
            }
        } else {
            v.push((addr - base, nbytes, text));
        }
    }
    Ok(map)
}

/// The oracle over one assembly file.
pub fn scan(asm_text: &str, arm64: bool, scratch: &Scratch, asm_path: &std::path::Path) -> Result<ScanStats, (String, String)> {
    let a = parse_asm(asm_text);
    let fail = |k: &str, m: String| Err((k.to_string(), m));
    // --- labels (C19 program level) ---
    check_labels(&a)?;
    let table = function_table(&a).map_err(|e| ("function-table".to_string(), e))?;
    let by_name: HashMap<&str, &FnCode> = a.fns.iter().map(|f| (f.name.as_str(), f)).collect();
    let gcp = a.sections.get(".dora.gcpoints").cloned().unwrap_or_default();
    let offs = a.sections.get(".dora.gcpoint_offsets").cloned().unwrap_or_default();
    let locs = a.sections.get(".dora.locations").cloned().unwrap_or_default();
    let inl_count = a.sections.get(".dora.inlined_functions").map(|v| v.len()).unwrap_or(0);
    let insns = if arm64 { HashMap::new() } else { objdump_x64(scratch, asm_path).map_err(|e| ("TOOL".to_string(), e))? };
    let mut st = ScanStats { functions: 0, functions_with_maps: 0, call_sites: 0, indirect_calls: 0, slots: 0, undecodable: 0, labels: a.labels.len() };
    // code ranges: each table entry names a function and its own end label; ranges cannot overlap because every
    // function body is one contiguous run in .text — but two entries must not name the same range
    let mut named: HashSet<&str> = HashSet::new();
    for e in &table {
        if !named.insert(e.start.as_str()) {
            return fail("code-range-registered-twice", format!("function {} appears twice in the function table", e.start));
        }
        let Some(f) = by_name.get(e.start.as_str()) else {
            return fail("function-table", format!("table names {} which is not defined in .text", e.start));
        };
        match a.end_labels.get(&e.end) {
            Some((fname, off)) if fname == &e.start && *off == f.bytes.len() => {}
            other => return fail("code-range", format!("end label {} of {} does not mark the end of that function's code ({other:?}, code has {} bytes)", e.end, e.start, f.bytes.len())),
        }
    }
    for e in &table {
        let f = by_name[e.start.as_str()];
        st.functions += 1;
        let size = f.bytes.len();
        // gc points of this function
        if (e.gc_start + e.gc_len) * 5 > gcp.len() {
            return fail("gcpoint-slice", format!("{}: gcpoint slice {}+{} exceeds table", f.name, e.gc_start, e.gc_len));
        }
        let mut points: BTreeMap<usize, (usize, usize)> = BTreeMap::new();
        let mut prev: Option<usize> = None;
        for i in 0..e.gc_len {
            let g = &gcp[(e.gc_start + i) * 5..(e.gc_start + i) * 5 + 5];
            let pc = g[0] as usize;
            if let Some(p) = prev {
                if pc <= p {
                    return fail("gcpoints-unordered", format!("{}: gcpoint offsets not strictly increasing ({p} then {pc})", f.name));
                }
            }
            prev = Some(pc);
            if pc > size {
                return fail("gcpoint-outside-function", format!("{}: gcpoint at {pc}, function has {size} bytes", f.name));
            }
            if (g[1] + g[2]) as usize > offs.len() {
                return fail("gcpoint-offset-slice", format!("{}: offset slice exceeds table", f.name));
            }
            points.insert(pc, (g[1] as usize, g[2] as usize));
        }
        // location table
        if (e.loc_start + e.loc_len) * 4 > locs.len() {
            return fail("location-slice", format!("{}: location slice exceeds table", f.name));
        }
        let mut prev: Option<i64> = None;
        for i in 0..e.loc_len {
            let l = &locs[(e.loc_start + i) * 4..(e.loc_start + i) * 4 + 4];
            if let Some(p) = prev {
                if l[0] <= p {
                    return fail("locations-unordered", format!("{}: location table not strictly increasing in pc ({p} then {})", f.name, l[0]));
                }
            }
            prev = Some(l[0]);
            if l[0] as usize > size {
                return fail("location-outside-function", format!("{}: location entry at pc {}, function has {size} bytes", f.name, l[0]));
            }
            if l[1] != 0xFFFF_FFFF && (l[1] as usize) >= e.inl_start + e.inl_len.max(1) + inl_count {
                return fail("inlined-id-range", format!("{}: inlined function id {} out of range", f.name, l[1]));
            }
        }
        if e.kind != 0 {
            continue; // trampolines: the runtime uses the entry at offset 0 / walks them without roots
        }
        let calls = if arm64 {
            arm64_calls(f)
        } else {
            match insns.get(&f.name) {
                Some(i) => x64_calls(f, i),
                None => {
                    st.undecodable += 1;
                    continue;
                }
            }
        };
        if calls.undecodable {
            st.undecodable += 1;
            continue;
        }
        let mut has_slots = false;
        for (ret, what, needs) in &calls.sites {
            st.call_sites += 1;
            if what.starts_with("indirect") || what == "blr" {
                st.indirect_calls += 1;
            }
            if !needs {
                continue;
            }
            match points.get(ret) {
                None => {
                    let kind = if what.contains("gc_allocation") {
                        "allocation-slow-path"
                    } else if what.contains("safepoint") {
                        "safepoint-poll"
                    } else if what.starts_with("indirect") || what == "blr" {
                        "indirect-call"
                    } else if what.contains("runtime_5Fentry") {
                        "runtime-entry-call"
                    } else {
                        "direct-call"
                    };
                    return fail(&format!("missing-stack-map:{kind}"), format!("{}: return address at offset {ret} ({what}) has no stack map; maps exist at {:?}", f.name, points.keys().take(12).collect::<Vec<_>>()));
                }
                Some((os, ol)) => {
                    for k in 0..*ol {
                        let o = offs[os + k];
                        st.slots += 1;
                        has_slots = true;
                        if o % 8 != 0 {
                            return fail("slot-misaligned", format!("{}: map at {ret} lists offset {o}, not 8-byte aligned", f.name));
                        }
                        let in_frame = o <= -8 && o >= -calls.extent.max(8);
                        let in_args = what.contains("runtime_5Fentry") && o >= 16 && o < 16 + 8 * 32;
                        if !in_frame && !in_args {
                            return fail("slot-outside-frame", format!("{}: map at {ret} ({what}) lists offset {o}; the frame's maximal static extent is {} bytes", f.name, calls.extent));
                        }
                    }
                }
            }
        }
        if has_slots {
            st.functions_with_maps += 1;
        }
    }
    Ok(st)
}

/// C19, program level: every label of an emitted assembly file is unique, uses only characters every
/// supported assembler accepts, and function symbols respect the length cap (+ fixed suffixes).
pub fn check_labels(a: &Asm) -> Result<usize, (String, String)> {
    let mut seen: HashSet<&str> = HashSet::new();
    for l in &a.labels {
        if !seen.insert(l.as_str()) {
            return Err(("label-duplicate".into(), format!("label {l} is defined twice")));
        }
        if !l.chars().all(|c| c.is_ascii_alphanumeric() || c == '_' || c == '.' || c == '$') {
            return Err(("label-charset".into(), format!("label {l:?} contains characters outside [A-Za-z0-9_.$]")));
        }
        if l.starts_with("dora_") && l.len() > 200 + 32 {
            return Err(("label-length".into(), format!("label of {} characters", l.len())));
        }
    }
    Ok(a.labels.len())
}

pub struct Labels {
    pub tools: Tools,
}

impl Prop for Labels {
    type Case = AsmCase;
    fn name(&self) -> &str {
        "asm-labels"
    }
    fn generate(&self, c: &mut Choices) -> AsmCase {
        // programs with many instantiations: deeply nested generic types and same-named items in modules
        let depth = 1 + c.below(6);
        let mut ty = "Int64".to_string();
        let mut val = "1".to_string();
        for _ in 0..depth {
            match c.below(3) {
                0 => {
                    val = format!("Some[{ty}]({val})");
                    ty = format!("Option[{ty}]");
                }
                1 => {
                    val = format!("({val}, {val})");
                    ty = format!("({ty}, {ty})");
                }
                _ => {
                    val = format!("Wr[{ty}](v = {val})");
                    ty = format!("Wr[{ty}]");
                }
            }
        }
        let long = "x".repeat(c.below(180));
        // scenarios whose instantiations differ only in what a careless display name drops
        let scenario = c.below(5);
        if scenario >= 2 {
            let (name, src): (&str, String) = match scenario {
                2 => (
                    "two-instantiations-of-a-generic-trait-boxed",
                    format!("trait Conv[T] {{ fn conv(): T; }}\nclass Sq{long} {{ v: Int64 }}\nimpl Conv[Int64] for Sq{long} {{ fn conv(): Int64 {{ self.v * self.v }} }}\nimpl Conv[String] for Sq{long} {{ fn conv(): String {{ \"sq${{self.v}}\" }} }}\nfn main() {{\n    let a = Sq{long}(v = 4) as Conv[Int64];\n    let b = Sq{long}(v = 5) as Conv[String];\n    println(\"${{a.conv()}} ${{b.conv()}}\");\n}}\n"),
                ),
                3 => (
                    "trait-objects-that-differ-in-associated-type-bindings",
                    format!("trait Src {{ type Item; fn get(): Self::Item; }}\nclass A{long} {{ v: Int64 }}\nclass B{long} {{ v: String }}\nimpl Src for A{long} {{ type Item = Int64; fn get(): Int64 {{ self.v }} }}\nimpl Src for B{long} {{ type Item = String; fn get(): String {{ self.v }} }}\nfn id[T](x: T): T {{ x }}\nfn main() {{\n    let a = id[Src[Item = Int64]](A{long}(v = 1) as Src[Item = Int64]);\n    let b = id[Src[Item = String]](B{long}(v = \"s\") as Src[Item = String]);\n    println(\"${{a.get()}} ${{b.get()}}\");\n}}\n"),
                ),
                _ => (
                    "same-named-types-in-different-modules-as-type-arguments",
                    format!("mod a {{ pub class Foo{long} {{ pub v: Int64 }} pub struct Bar {{ pub v: Int64 }} }}\nmod b {{ pub class Foo{long} {{ pub v: Int64 }} pub struct Bar {{ pub v: Int64 }} }}\nfn id[T](x: T): T {{ x }}\nfn main() {{\n    let x = id[a::Foo{long}](a::Foo{long}(v = 1));\n    let y = id[b::Foo{long}](b::Foo{long}(v = 2));\n    let p = id[a::Bar](a::Bar(v = 3));\n    let q = id[b::Bar](b::Bar(v = 4));\n    println(\"${{x.v}} ${{y.v}} ${{p.v}} ${{q.v}}\");\n}}\n"),
                ),
            };
            let config = c.pick_str(&["baseline-x64", "optimizing-x64"]).to_string();
            return AsmCase { label: name.to_string(), source: src, config, gc: None };
        }
        let source = format!(
            "class Wr[T] {{ v: T }}\nmod a {{ pub fn same{long}(): Int64 {{ 1 }} pub mod b {{ pub fn same{long}(): Int64 {{ 2 }} }} }}\nmod b {{ pub fn same{long}(): Int64 {{ 3 }} }}\nfn id[T](x: T): T {{ x }}\nfn twice[T](x: T): (T, T) {{ (id[T](x), id[T](x)) }}\nfn main() {{\n    let v: {ty} = {val};\n    let w = twice[{ty}](id[{ty}](v));\n    let f = |q: Int64|: Int64 {{ q + a::same{long}() + a::b::same{long}() + b::same{long}() }};\n    println(\"${{f(1)}}\");\n}}\n"
        );
        let config = c.pick_str(&["baseline-x64", "optimizing-x64"]).to_string();
        AsmCase { label: format!("nested-generics:depth{depth}"), source, config, gc: None }
    }
    fn eval(&self, case: &AsmCase) -> Outcome {
        let h = hash64(&(&case.source, &case.config));
        let scratch = Scratch::new("c19");
        std::fs::write(scratch.file("prog.dora"), &case.source).unwrap();
        let mut cmd = std::process::Command::new(self.tools.dora());
        cmd.arg("compile").arg("prog.dora").arg("-S").arg("-o").arg("out").env_remove("DORA_FLAGS").env("TMPDIR", &scratch.path).current_dir(&scratch.path);
        if case.config.starts_with("baseline") {
            cmd.arg("--cannon");
        }
        let r = run_cmd(cmd, Duration::from_secs(240));
        if !r.ok() {
            return Outcome { inconclusive: Some(format!("compile failed: {}", crate::c01::compile_failure_signature(&r.stderr_str()))), hash: h, ..Default::default() };
        }
        let text = std::fs::read_to_string(scratch.file("out.s")).unwrap_or_default();
        let a = parse_asm(&text);
        match check_labels(&a) {
            Ok(n) => {
                // the object file must assemble (duplicate or malformed symbols are rejected by the assembler)
                let mut cmd = std::process::Command::new("gcc");
                cmd.arg("-c").arg(scratch.file("out.s")).arg("-o").arg(scratch.file("out.o"));
                let g = run_cmd(cmd, Duration::from_secs(120));
                if !g.ok() {
                    return Outcome::fail(h, format!("assembler-rejects-symbols:{}", case.label.split(':').next().unwrap_or("")), truncate_str(&g.stderr_str(), 600));
                }
                let longest = a.labels.iter().map(|l| l.len()).max().unwrap_or(0);
                Outcome::pass(h, longest >= 200).class(format!("config:{}", case.config)).class(format!("scenario:{}", case.label.split(':').next().unwrap_or(""))).class_if(longest >= 200, "has-shortened-symbol").class(format!("labels~{}", (n / 500) * 500))
            }
            Err((k, m)) => Outcome::fail(h, format!("{k}:{}", case.label.split(':').next().unwrap_or("")), m),
        }
    }
    fn render(&self, case: &AsmCase) -> Value {
        json!({"label": case.label, "source": case.source, "config": case.config, "gc": case.gc})
    }
    fn from_rendered(&self, v: &Value) -> Option<AsmCase> {
        Some(AsmCase { label: v["label"].as_str().unwrap_or("replay").into(), source: v["source"].as_str()?.into(), config: v["config"].as_str()?.into(), gc: None })
    }
}

#[derive(Clone, Debug)]
pub struct AsmCase {
    pub label: String,
    pub source: String,
    pub config: String, // "baseline-x64" | "optimizing-x64" | "optimizing-arm64"
    pub gc: Option<String>,
}

pub struct StackMaps {
    pub tools: Tools,
}

impl Prop for StackMaps {
    type Case = AsmCase;
    fn name(&self) -> &str {
        "asmscan"
    }
    fn generate(&self, c: &mut Choices) -> AsmCase {
        let (label, source) = if c.chance(1, 2) {
            let p = crate::progen::pgen::generate(c, crate::progen::pgen::Profile::Core);
            ("generated".to_string(), crate::progen::ir::print_program(&p))
        } else {
            static CORPUS: std::sync::OnceLock<Vec<crate::c02::DiffCase>> = std::sync::OnceLock::new();
            let all = CORPUS.get_or_init(|| crate::c02::corpus_cases(false).0);
            let base = &all[c.below(all.len())];
            (base.label.clone(), base.source.clone())
        };
        let config = if self.tools.has_boots() {
            c.pick_str(&["baseline-x64", "optimizing-x64", "optimizing-arm64"]).to_string()
        } else {
            // a tree on which the optimizing compiler cannot be bootstrapped: the baseline generator is still judged
            "baseline-x64".to_string()
        };
        let gc = if c.chance(1, 3) { Some(c.pick_str(&["copy", "sweep", "zero"]).to_string()) } else { None };
        AsmCase { label, source, config, gc }
    }
    fn eval(&self, case: &AsmCase) -> Outcome {
        let h = hash64(&(&case.source, &case.config, &case.gc));
        let scratch = Scratch::new("c10");
        let src = scratch.file("prog.dora");
        std::fs::write(&src, &case.source).unwrap();
        let mut cmd = std::process::Command::new(self.tools.dora());
        cmd.arg("compile").arg("prog.dora").arg("-S").arg("-o").arg("out").env_remove("DORA_FLAGS").env("TMPDIR", &scratch.path).current_dir(&scratch.path);
        if case.config.starts_with("baseline") {
            cmd.arg("--cannon");
        }
        if case.config.ends_with("arm64") {
            cmd.arg("--target").arg("arm64");
        }
        if let Some(g) = &case.gc {
            cmd.arg(format!("--gc={g}"));
        }
        let r = run_cmd(cmd, Duration::from_secs(240));
        if !r.ok() {
            let sig = crate::c01::compile_failure_signature(&r.stderr_str());
            if sig.starts_with("error") {
                return Outcome::pass(h, false).class("rejected-by-front-end(skipped)");
            }
            return Outcome { inconclusive: Some(format!("compile failed: {sig}")), hash: h, ..Default::default() };
        }
        let asm_path = scratch.file("out.s");
        let text = std::fs::read_to_string(&asm_path).unwrap_or_default();
        match scan(&text, case.config.ends_with("arm64"), &scratch, &asm_path) {
            Ok(st) => Outcome::pass(h, st.functions_with_maps > 0 && st.call_sites > 0)
                .class(format!("config:{}", case.config))
                .class_if(st.indirect_calls > 0, "has-indirect-calls")
                .class_if(st.undecodable > 0, "has-undecodable-functions(skipped)")
                .class_if(case.gc.is_some(), "explicit-collector")
                .class(format!("functions~{}", (st.functions / 100) * 100)),
            Err((k, m)) if k == "TOOL" => Outcome { inconclusive: Some(m), hash: h, ..Default::default() },
            Err((k, m)) => Outcome::fail(h, format!("{k}:{}", case.config), format!("[{}] {m}", case.config)),
        }
    }
    fn render(&self, case: &AsmCase) -> Value {
        json!({"label": case.label, "source": case.source, "config": case.config, "gc": case.gc})
    }
    fn from_rendered(&self, v: &Value) -> Option<AsmCase> {
        Some(AsmCase { label: v["label"].as_str().unwrap_or("replay").into(), source: v["source"].as_str()?.into(), config: v["config"].as_str()?.into(), gc: v["gc"].as_str().map(String::from) })
    }
}

pub fn main(mode: Mode) -> i32 {
    let p = StackMaps { tools: Tools::release() };
    match mode {
        Mode::Worker(_) => 2,
        Mode::Minimize(_, doc) => {
            let mut ctx = Ctx::new("C10", "quick");
            ctx.minimize_stored(&p, &doc, 100)
        }
        Mode::Replay(_, doc) => {
            let mut ctx = Ctx::new("C10", "quick");
            ctx.replay(&p, &doc)
        }
        Mode::Run(tier) => {
            let mut ctx = Ctx::new("C10", &tier);
            let boots = p.tools.has_boots();
            ctx.rule = "cases: (program, back-end configuration) pairs — programs of the runnable corpus and of the typed generator, each compiled with -S by the baseline generator (x64; it ignores --target and always emits host code) or the optimizing generator (x64 or arm64), default or explicit collector; every emitted file contains the whole reachable standard library, so each case checks hundreds of functions incl. trampolines and trait-object thunks. oracle per function of the function table: the end label closes exactly that function's code and no function is registered twice (disjoint ranges); for every call instruction found by an independent sweep (objdump linear sweep on x64, bl/blr word masks on arm64) whose target is managed code, a runtime entry, the safepoint or the allocation slow path, the return offset has a stack map; every listed slot is 8-byte aligned and lies inside the frame's maximal static extent (sum of stack-pointer decrements), runtime-entry calls may also list caller-pushed argument slots; stack maps and source-position tables are strictly ordered and inside the function; inlined ids in range. non-trivial = file with >= 1 function that has a call site and a non-empty map; distinct by (source, configuration, collector) hash".into();
            ctx.assumptions = vec!["x64 instruction boundaries come from GNU objdump's linear sweep; a function where a relocated direct call does not coincide with a decoded call is skipped and counted".into(), "the check cannot tell whether a listed slot really holds a reference (C03 attacks that dynamically)".into()];
            ctx.run_regressions(&p);
            let n = ctx.n(240, 3000);
            ctx.run_search(&p, n, 2600, 0);
            ctx.require_class("asmscan/config:baseline-x64");
            ctx.require_class("asmscan/has-indirect-calls");
            if boots {
                ctx.require_class("asmscan/config:optimizing-x64");
                ctx.require_class("asmscan/config:optimizing-arm64");
            } else if ctx.violations.is_empty() {
                // only the baseline generator could be judged
                ctx.inconclusive.push("the optimizing compiler could not be bootstrapped from this tree; only the baseline generator was judged".into());
                ctx.extra.insert("hard_inconclusive".into(), json!("optimizing compiler not bootstrapped"));
            }
            ctx.finish()
        }
    }
}
