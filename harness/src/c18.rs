//! C18 — packages survive being written and read back; corrupted packages are refused.
//! (The bytecode writer/reader stream round trip lives in the separate crate harness-bc.)

use crate::runner::*;
use crate::vcore::*;
use serde_json::{Value, json};
use std::time::Duration;

#[derive(Clone, Debug)]
pub struct PkgCase {
    pub label: String,
    pub source: String,
    /// fault to apply to the package: None | ("truncate", n) | ("flip", bit positions)
    pub fault: Option<(String, Vec<u64>)>,
}

pub struct Packages {
    pub tools: Tools,
}

fn dora(tools: &Tools, args: &[&str], cwd: &std::path::Path) -> ProcResult {
    let mut cmd = std::process::Command::new(tools.dora());
    cmd.arg("compile").args(args).env_remove("DORA_FLAGS").env("TMPDIR", cwd).current_dir(cwd);
    run_cmd(cmd, Duration::from_secs(240))
}

fn program_source(c: &mut Choices) -> (String, String) {
    if c.chance(1, 2) {
        let p = crate::progen::pgen::generate(c, crate::progen::pgen::Profile::Core);
        ("generated".into(), crate::progen::ir::print_program(&p))
    } else {
        static CORPUS: std::sync::OnceLock<Vec<crate::c02::DiffCase>> = std::sync::OnceLock::new();
        let all = CORPUS.get_or_init(|| crate::c02::corpus_cases(false).0);
        let base = &all[c.below(all.len())];
        (base.label.clone(), base.source.clone())
    }
}

impl Prop for Packages {
    type Case = PkgCase;
    fn name(&self) -> &str {
        "packages"
    }
    fn generate(&self, c: &mut Choices) -> PkgCase {
        let (label, source) = program_source(c);
        let fault = match c.weighted(&[5, 3, 4]) {
            0 => None,
            1 => Some(("truncate".to_string(), vec![c.u64()])),
            _ => {
                let n = 1 + c.below(3);
                Some(("flip".to_string(), (0..n).map(|_| c.u64()).collect()))
            }
        };
        PkgCase { label, source, fault }
    }
    fn eval(&self, case: &PkgCase) -> Outcome {
        let h = hash64(&(&case.source, &case.fault));
        let scratch = Scratch::new("c18");
        let src = scratch.file("prog.dora");
        std::fs::write(&src, &case.source).unwrap();
        let pkg = scratch.file("prog.dora-package");
        let r = dora(&self.tools, &["-c", "prog.dora", "-o", "prog.dora-package"], &scratch.path);
        if !r.ok() {
            if crate::c01::compile_failure_signature(&r.stderr_str()).starts_with("error") {
                return Outcome::pass(h, false).class("rejected-by-front-end(skipped)");
            }
            return Outcome { inconclusive: Some(format!("front end failed: {}", crate::c01::compile_failure_signature(&r.stderr_str()))), hash: h, ..Default::default() };
        }
        let bytes = std::fs::read(&pkg).unwrap();
        match &case.fault {
            None => {
                // decode / encode round trip, in-process with the repo's own (de)serialiser
                let prog = match guarded(|| dora_bytecode::decode_program_from_bytes(&bytes)) {
                    Ok(Ok(p)) => p,
                    Ok(Err(e)) => return Outcome::fail(h, "decode-of-fresh-package-failed", format!("decoder refused a package the compiler just wrote: {e}")),
                    Err(p) => return Outcome::fail(h, format!("decode-panic:{}", p.key()), p.message),
                };
                let d1 = format!("{:?}", prog);
                let re = match guarded(|| bincode::encode_to_vec(&prog, bincode::config::standard())) {
                    Ok(Ok(b)) => b,
                    Ok(Err(e)) => return Outcome::fail(h, "re-encode-failed", format!("{e}")),
                    Err(p) => return Outcome::fail(h, format!("encode-panic:{}", p.key()), p.message),
                };
                if re != bytes {
                    let at = re.iter().zip(bytes.iter()).position(|(a, b)| a != b).unwrap_or(re.len().min(bytes.len()));
                    return Outcome::fail(h, "re-encode-differs", format!("encode(decode(bytes)) differs from bytes at offset {at} ({} vs {} bytes)", re.len(), bytes.len()));
                }
                let prog2 = dora_bytecode::decode_program_from_bytes(&re).expect("decode 2");
                if format!("{:?}", prog2) != d1 {
                    return Outcome::fail(h, "decode-not-stable", "decode(encode(p)) prints differently from p".to_string());
                }
                // via-package build == direct build, both generators
                let mut funcs = 0usize;
                for b in Backend::BOTH {
                    let flag: Vec<&str> = if b == Backend::Cannon { vec!["--cannon"] } else { vec![] };
                    let mut a1 = vec!["prog.dora", "-o", "direct"];
                    a1.extend(flag.iter());
                    let mut a2 = vec!["prog.dora-package", "-o", "viapkg"];
                    a2.extend(flag.iter());
                    let r1 = dora(&self.tools, &a1, &scratch.path);
                    let r2 = dora(&self.tools, &a2, &scratch.path);
                    if !r1.ok() || !r2.ok() {
                        if r1.ok() != r2.ok() {
                            return Outcome::fail(h, format!("via-package-build-differs:{}:status", b.name()), format!("direct build ok={}, build from the package ok={}\n{}", r1.ok(), r2.ok(), truncate_str(&crate::c01::strip_warnings(&r2.stderr_str()), 1000)));
                        }
                        return Outcome { inconclusive: Some(format!("both builds failed: {}", crate::c01::compile_failure_signature(&r1.stderr_str()))), hash: h, ..Default::default() };
                    }
                    let e1 = std::fs::read(scratch.file("direct")).unwrap_or_default();
                    let e2 = std::fs::read(scratch.file("viapkg")).unwrap_or_default();
                    if e1 != e2 {
                        return Outcome::fail(h, format!("via-package-build-differs:{}", b.name()), format!("{} generator: executable built from the package file differs from the direct build ({} vs {} bytes)", b.name(), e2.len(), e1.len()));
                    }
                    funcs = d1.matches("FunctionData").count();
                }
                Outcome::pass(h, true).class("round-trip").class(format!("family:{}", case.label.split(':').next().unwrap_or(""))).class_if(funcs > 0, "has-functions")
            }
            Some((kind, params)) => {
                let mut bad = bytes.clone();
                let what;
                if kind == "truncate" {
                    let n = (params[0] % bytes.len() as u64) as usize;
                    bad.truncate(n);
                    what = format!("truncated to {n} of {} bytes", bytes.len());
                } else {
                    for p in params {
                        let bit = (p % (bytes.len() as u64 * 8)) as usize;
                        bad[bit / 8] ^= 1 << (bit % 8);
                    }
                    what = format!("{} bit(s) flipped", params.len());
                }
                let badp = scratch.file("bad.dora-package");
                std::fs::write(&badp, &bad).unwrap();
                // reference assembly from the pristine package
                let r0 = dora(&self.tools, &["prog.dora-package", "-S", "-o", "good", "--cannon"], &scratch.path);
                if !r0.ok() {
                    return Outcome { inconclusive: Some("pristine package does not compile".into()), hash: h, ..Default::default() };
                }
                let r = dora(&self.tools, &["bad.dora-package", "-S", "-o", "bad", "--cannon"], &scratch.path);
                if r.timed_out {
                    return Outcome { inconclusive: Some("compile of damaged package timed out".into()), hash: h, ..Default::default() };
                }
                let stderr = r.stderr_str();
                if r.signal.is_some() || stderr.contains("panicked at") || stderr.contains("overflowed its stack") {
                    let sig = crate::c01::compile_failure_signature(&stderr);
                    return Outcome::fail(h, format!("crash-on-damaged-package:{kind}:{sig}"), format!("package {what}: the code generator crashed (status {:?}, signal {:?}) instead of refusing the file\n{}", r.status, r.signal, truncate_str(&stderr, 1500)));
                }
                if r.ok() {
                    let good = std::fs::read(scratch.file("good.s")).unwrap_or_default();
                    let badasm = std::fs::read(scratch.file("bad.s")).unwrap_or_default();
                    if good != badasm {
                        return Outcome::fail(h, format!("damaged-package-accepted:{kind}"), format!("package {what}: accepted and compiled to a DIFFERENT program ({} vs {} bytes of assembly)", badasm.len(), good.len()));
                    }
                    return Outcome::pass(h, false).class(format!("fault:{kind}:accepted-identical-output"));
                }
                if stderr.trim().is_empty() {
                    return Outcome::fail(h, format!("silent-refusal:{kind}"), format!("package {what}: refused with status {:?} but without any message", r.status));
                }
                Outcome::pass(h, true).class(format!("fault:{kind}:refused-with-message"))
            }
        }
    }
    fn render(&self, case: &PkgCase) -> Value {
        json!({"label": case.label, "source": case.source, "fault": case.fault.as_ref().map(|(k, p)| json!({"kind": k, "params": p}))})
    }
    fn from_rendered(&self, v: &Value) -> Option<PkgCase> {
        let fault = v["fault"].as_object().map(|f| (f["kind"].as_str().unwrap_or("").to_string(), f["params"].as_array().map(|a| a.iter().filter_map(|x| x.as_u64()).collect()).unwrap_or_default()));
        Some(PkgCase { label: v["label"].as_str().unwrap_or("replay").into(), source: v["source"].as_str()?.into(), fault })
    }
}

pub fn main(mode: Mode) -> i32 {
    let p = Packages { tools: Tools::release() };
    match mode {
        Mode::Worker(_) => 2,
        Mode::Minimize(_, doc) => {
            let mut ctx = Ctx::new("C18", "quick");
            ctx.minimize_stored(&p, &doc, 100)
        }
        Mode::Replay(_, doc) => {
            let mut ctx = Ctx::new("C18", "quick");
            ctx.replay(&p, &doc)
        }
        Mode::Run(tier) => {
            let mut ctx = Ctx::new("C18", &tier);
            if !p.tools.has_boots() {
                println!("INCONCLUSIVE property=C18 the optimizing compiler could not be bootstrapped from this tree");
                return 2;
            }
            ctx.rule = "packages: programs of the runnable corpus and of the typed generator are compiled to a package (-c); (round trip) the package bytes are decoded with the repository's decoder and re-encoded: bytes must be identical and decode(encode(p)) must print like p; the executable built from the package file must be byte-identical to the direct build, for both code generators; (faults) the package is truncated at a generated length or 1-3 generated bits are flipped: the code generator must refuse it with a message (exit status != 0), or produce assembly identical to the pristine package's — a crash or a different program is a violation. bytecode streams: see sub-check `bytecode-streams` (crate harness-bc, merged below). non-trivial = round-trip case, or fault case that was refused with a message; distinct by (source, fault) hash".into();
            ctx.run_regressions(&p);
            ctx.run_known_reproducers(&p);
            let n = ctx.n(150, 3000);
            ctx.run_search(&p, n, 2600, 0);
            // merge the bytecode-stream part (binary vbc, run first by ./check)
            ctx.merge_part("bytecode-streams");
            ctx.require_class("packages/round-trip");
            ctx.require_class("packages/fault:truncate:refused-with-message");
            ctx.finish()
        }
    }
}
