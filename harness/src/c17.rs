//! C17 — formatting never changes a program and is stable.

use crate::textgen::{self, TextCase};
use crate::vcore::*;
use dora_parser::ast::{SyntaxElement, SyntaxNode};
use dora_parser::{Parser, TokenKind};
use serde_json::{Value, json};
use std::sync::Arc;

pub struct Format;

#[derive(Clone, Debug)]
pub struct FmtCase {
    pub text: TextCase,
    pub width: u32,
}

#[derive(Clone, Debug, PartialEq, Eq, Hash, PartialOrd, Ord)]
pub struct Tok {
    pub kind: u16,
    pub text: String,
}

pub struct Scan {
    /// non-trivia tokens with the optional trailing commas removed
    pub code: Vec<Tok>,
    pub code_parent: Vec<String>,
    pub comments: Vec<String>,
    /// (comment text, syntactic context) for failure signatures
    pub comment_ctx: Vec<(String, String)>,
    pub comment_next_to_delim: bool,
}

/// "TOKENKIND in PARENT" of the token covering byte `offset` of `text` (for failure signatures).
pub fn context_at(text: &str, offset: usize) -> String {
    let Ok(sc) = scan_raw(text) else { return "?".into() };
    let mut pos = 0usize;
    for (i, (k, t, _)) in sc.0.iter().enumerate() {
        if offset < pos + t.len() {
            // nearest non-trivia token at or after
            let j = (i..sc.0.len()).find(|&j| !sc.0[j].0.is_trivia()).unwrap_or(i);
            let _ = k;
            return format!("{:?} in {}", sc.0[j].0, sc.1[j]);
        }
        pos += t.len();
    }
    "END".into()
}

fn scan_raw(text: &str) -> Result<(Vec<(TokenKind, String, u8)>, Vec<String>), ()> {
    let (file, errors) = Parser::from_shared_string(Arc::new(text.to_string())).parse();
    if !errors.is_empty() {
        return Err(());
    }
    let mut c = Collector { toks: vec![], parents: vec![], owners: vec![] };
    c.walk(&file.root());
    let names = c.parents.iter().zip(c.owners.iter()).map(|(p, o)| ctx_name(*p, *o)).collect();
    Ok((c.toks, names))
}

fn is_comment(k: TokenKind) -> bool {
    matches!(k, TokenKind::LINE_COMMENT | TokenKind::MULTILINE_COMMENT)
}

fn is_closer(k: TokenKind) -> bool {
    matches!(k, TokenKind::R_PAREN | TokenKind::R_BRACKET | TokenKind::R_BRACE)
}

struct Collector {
    toks: Vec<(TokenKind, String, u8)>, // kind, text, comma flag: 0 = ordinary, 1 = mandatory (1-tuple), 2 = trailing (last item of a list)
    parents: Vec<TokenKind>,               // parent node kind per token
    owners: Vec<TokenKind>,                // nearest ancestor that is not a LIST_ITEM (names the kind of list)
}

/// "PARENT", or "LIST_ITEM of OWNER" so that lists of different constructs get different signatures
fn ctx_name(parent: TokenKind, owner: TokenKind) -> String {
    if parent == TokenKind::LIST_ITEM { format!("LIST_ITEM of {owner:?}") } else { format!("{parent:?}") }
}

impl Collector {
    fn walk(&mut self, n: &SyntaxNode) {
        self.walk_in(n, n.green().syntax_kind())
    }
    fn walk_in(&mut self, n: &SyntaxNode, owner_above: TokenKind) {
        let kind = n.green().syntax_kind();
        let owner = if kind == TokenKind::LIST_ITEM { owner_above } else { kind };
        let single_tuple = matches!(kind, TokenKind::TUPLE_EXPR | TokenKind::TUPLE_TYPE | TokenKind::TUPLE_PATTERN)
            && n.children().filter(|c| c.green().syntax_kind() == TokenKind::LIST_ITEM).count() == 1;
        let last_item = n.children().filter(|c| c.green().syntax_kind() == TokenKind::LIST_ITEM).count();
        let mut item_no = 0;
        for el in n.children_with_tokens() {
            match el {
                SyntaxElement::Token(t) => {
                    self.toks.push((t.syntax_kind(), t.text().to_string(), 0));
                    self.parents.push(kind);
                    self.owners.push(owner);
                }
                SyntaxElement::Node(c) => {
                    let start = self.toks.len();
                    self.walk_in(&c, owner);
                    if c.green().syntax_kind() == TokenKind::LIST_ITEM {
                        item_no += 1;
                        // a comma that ends the last item of a list is a trailing separator;
                        // the comma of the only element of a tuple is what makes it a tuple
                        if item_no == last_item {
                            for t in self.toks[start..].iter_mut().rev() {
                                if t.0.is_trivia() {
                                    continue;
                                }
                                if t.0 == TokenKind::COMMA {
                                    t.2 = if single_tuple { 1 } else { 2 };
                                }
                                break;
                            }
                        }
                    }
                }
            }
        }
    }
}

/// Parse `text` (must be error-free) and return the canonical code-token sequence and the comments.
pub fn scan(text: &str) -> Result<Scan, String> {
    let (file, errors) = Parser::from_shared_string(Arc::new(text.to_string())).parse();
    if !errors.is_empty() {
        return Err(format!("parse errors: {:?}", errors.iter().take(3).map(|e| (e.span, e.error.message())).collect::<Vec<_>>()));
    }
    let mut c = Collector { toks: vec![], parents: vec![], owners: vec![] };
    c.walk(&file.root());
    let mut code = vec![];
    let mut code_parent = vec![];
    let mut comments = vec![];
    let mut comment_ctx = vec![];
    let mut next_to = false;
    let nt: Vec<usize> = (0..c.toks.len()).filter(|&i| !c.toks[i].0.is_trivia()).collect();
    for (pos, &i) in nt.iter().enumerate() {
        let (k, ref t, flag) = c.toks[i];
        if k == TokenKind::COMMA && flag != 1 {
            if flag == 2 {
                continue; // optional trailing comma of a list
            }
            if let Some(&j) = nt.get(pos + 1) {
                if is_closer(c.toks[j].0) {
                    continue; // optional trailing comma (match arms etc.)
                }
            }
            // the separator after a match arm whose body ends in `}` is optional as well
            if c.parents[i] == TokenKind::MATCH_EXPR && pos > 0 && c.toks[nt[pos - 1]].0 == TokenKind::R_BRACE {
                continue;
            }
        }
        code.push(Tok { kind: k as u16, text: t.clone() });
        code_parent.push(ctx_name(c.parents[i], c.owners[i]));
    }
    for (i, (k, t, _)) in c.toks.iter().enumerate() {
        if is_comment(*k) {
            comments.push(t.trim_end().to_string());
            {
                let prev = c.toks[..i].iter().rev().find(|x| !x.0.is_trivia()).map(|x| format!("{:?}", x.0)).unwrap_or("START".into());
                let next = c.toks[i + 1..].iter().find(|x| !x.0.is_trivia()).map(|x| format!("{:?}", x.0)).unwrap_or("END".into());
                comment_ctx.push((t.trim_end().to_string(), format!("in={:?},after={prev},before={next}", c.parents[i])));
            }
            // adjacent (ignoring whitespace) to a delimiter/operator?
            let prev = c.toks[..i].iter().rev().find(|x| !matches!(x.0, TokenKind::WHITESPACE | TokenKind::NEWLINE));
            let next = c.toks[i + 1..].iter().find(|x| !matches!(x.0, TokenKind::WHITESPACE | TokenKind::NEWLINE));
            for n in [prev, next].into_iter().flatten() {
                if !n.0.is_trivia() && !n.1.chars().next().map(|ch| ch.is_alphanumeric() || ch == '_' || ch == '"' || ch == '\'').unwrap_or(true) {
                    next_to = true;
                }
            }
        }
    }
    comments.sort();
    Ok(Scan { code, code_parent, comments, comment_ctx, comment_next_to_delim: next_to })
}

// ---- recognised canonicalisations (known findings, see DESIGN.md C17-L) ----

const MODIFIER_WORDS: &[&str] = &["pub", "static", "mutating"];

/// Expand one `use` declaration (tokens after `use` up to `;`) into sorted full paths.
fn expand_use(toks: &[Tok]) -> Vec<String> {
    fn tree(toks: &[Tok], i: &mut usize, prefix: String, out: &mut Vec<String>) {
        let mut cur = prefix;
        while *i < toks.len() {
            let t = toks[*i].text.as_str();
            match t {
                "{" => {
                    *i += 1;
                    loop {
                        if *i >= toks.len() {
                            return;
                        }
                        if toks[*i].text == "}" {
                            *i += 1;
                            return;
                        }
                        if toks[*i].text == "," {
                            *i += 1;
                            continue;
                        }
                        let before = *i;
                        tree(toks, i, cur.clone(), out);
                        if *i == before {
                            *i += 1;
                        }
                    }
                }
                "," | "}" => {
                    out.push(cur);
                    return;
                }
                _ => {
                    cur.push_str(t);
                    cur.push(' ');
                    *i += 1;
                }
            }
        }
        out.push(cur);
    }
    let mut out = vec![];
    let mut i = 0;
    tree(toks, &mut i, String::new(), &mut out);
    out.sort();
    out
}

/// Canonical form modulo the formatter's intentional reorderings:
/// contiguous `use` runs sorted (group members sorted, singleton groups collapsed), modifier lists sorted.
pub fn canonical_modulo_known(code: &[Tok]) -> Vec<String> {
    let mut out: Vec<String> = vec![];
    let mut i = 0;
    let mut run: Vec<String> = vec![];
    let flush = |run: &mut Vec<String>, out: &mut Vec<String>| {
        if !run.is_empty() {
            run.sort();
            out.push(format!("USE-RUN[{}]", run.join(" ; ")));
            run.clear();
        }
    };
    while i < code.len() {
        // modifiers + use ... ;
        let mut j = i;
        let mut mods = vec![];
        while j < code.len() && (MODIFIER_WORDS.contains(&code[j].text.as_str()) || code[j].text == "@") {
            if code[j].text == "@" && j + 1 < code.len() {
                mods.push(format!("@{}", code[j + 1].text));
                j += 2;
            } else {
                mods.push(code[j].text.clone());
                j += 1;
            }
        }
        if j < code.len() && code[j].text == "use" {
            let mut k = j + 1;
            let mut depth = 0i32;
            while k < code.len() {
                match code[k].text.as_str() {
                    "{" => depth += 1,
                    "}" => depth -= 1,
                    ";" if depth <= 0 => break,
                    _ => {}
                }
                k += 1;
            }
            mods.sort();
            let paths = expand_use(&code[j + 1..k.min(code.len())]);
            run.push(format!("{} use {}", mods.join(" "), paths.join(" | ")));
            i = (k + 1).min(code.len());
            continue;
        }
        flush(&mut run, &mut out);
        if !mods.is_empty() {
            mods.sort();
            out.push(format!("MODS[{}]", mods.join(" ")));
            i = j;
            continue;
        }
        out.push(code[i].text.clone());
        i += 1;
    }
    flush(&mut run, &mut out);
    out
}

fn unsafe_kind(k: u16) -> TokenKind {
    // TokenKind is a fieldless #[repr(u16)]-like enum; values come from `as u16` of real kinds
    unsafe { std::mem::transmute::<u16, TokenKind>(k) }
}

pub struct FmtStats {
    pub broke_groups: bool,
    pub comment_next_to_delim: bool,
    pub ncomments: usize,
    pub known: Option<&'static str>,
}

pub fn check_format(text: &str, width: u32) -> Result<Option<FmtStats>, (String, String)> {
    let before = match scan(text) {
        Ok(s) => s,
        Err(_) => return Ok(None), // not a syntactically valid file: outside the quantifier
    };
    let fmt = |t: &str, w: u32| -> Result<Arc<String>, (String, String)> {
        match guarded(|| dora_format::format_source_with_line_length(t, w)) {
            Ok(Ok(s)) => Ok(s),
            Ok(Err(errs)) => Err(("rejects-valid-input".into(), format!("formatter reported parse errors on input that parses: {:?}", errs.len()))),
            Err(p) => Err((p.key(), format!("formatter panicked (width {w}): {} at {}", p.message, p.location))),
        }
    };
    let out = fmt(text, width)?;
    let after = scan(&out).map_err(|e| (format!("output-does-not-parse:{}", normalise_msg(e.split("\"").nth(1).unwrap_or("?"))), format!("width {width}: {e}\n--- output ---\n{}", truncate_str(&out, 1500))))?;
    let mut known = None;
    if before.code != after.code {
        // is it only the intentional canonicalisation?
        let ca = canonical_modulo_known(&before.code);
        let cb = canonical_modulo_known(&after.code);
        if ca == cb {
            let use_changed = before.code.iter().any(|t| t.text == "use");
            known = Some(if use_changed { "use-canonicalisation" } else { "modifier-order" });
        } else {
            let i = before.code.iter().zip(after.code.iter()).position(|(a, b)| a != b).unwrap_or(before.code.len().min(after.code.len()));
            let ctx = |v: &[Tok]| v[i.saturating_sub(6)..(i + 6).min(v.len())].iter().map(|t| t.text.as_str()).collect::<Vec<_>>().join(" ");
            let ka = before.code.get(i).map(|t| format!("{:?}", unsafe_kind(t.kind))).unwrap_or("END".into());
            let kb = after.code.get(i).map(|t| format!("{:?}", unsafe_kind(t.kind))).unwrap_or("END".into());
            let pa = before.code_parent.get(i).cloned().unwrap_or("END".into());
            return Err((
                format!("tokens-changed:{ka}->{kb} in {pa}"),
                format!("width {width}: code tokens differ at token #{i}\n  input : … {}\n  output: … {}", ctx(&before.code), ctx(&after.code)),
            ));
        }
    }
    if before.comments != after.comments {
        let mut pool = after.comments.clone();
        let mut missing: Vec<&String> = vec![];
        for cmt in before.comments.iter() {
            if let Some(ix) = pool.iter().position(|x| x == cmt) {
                pool.remove(ix);
            } else {
                missing.push(cmt);
            }
        }
        missing.truncate(3);
        let extra: Vec<&String> = after.comments.iter().filter(|c| !before.comments.contains(c)).take(3).collect();
        // context of a lost comment: with duplicates, the occurrence the formatter is known to drop first
        let ctxs: Vec<String> = missing.first().map(|m| before.comment_ctx.iter().filter(|(t, _)| &t == m).map(|(_, c)| c.clone()).collect()).unwrap_or_default();
        let listy = |c: &String| {
            let inside = c.split(',').next().unwrap_or("");
            let after_closer = c.contains("after=R_PAREN") || c.contains("after=R_BRACKET") || c.contains("after=R_BRACE");
            after_closer && (inside.ends_with("_LIST") || inside.contains("TUPLE_") || inside.ends_with("USE_GROUP"))
        };
        let ctx = if ctxs.is_empty() {
            "added".to_string()
        } else if ctxs.iter().any(listy) {
            "after-closing-delimiter-of-list".to_string()
        } else {
            ctxs[0].clone()
        };
        return Err((format!("comment-lost:{ctx}"), format!("width {width}: comment multiset differs; missing {:?}, new {:?} ({} -> {})", missing, extra, before.comments.len(), after.comments.len())));
    }
    let again = fmt(&out, width)?;
    if *again != *out {
        let a: Vec<&str> = out.lines().collect();
        let b: Vec<&str> = again.lines().collect();
        let i = a.iter().zip(b.iter()).position(|(x, y)| x != y).unwrap_or(a.len().min(b.len()));
        let off = out.bytes().zip(again.bytes()).position(|(x, y)| x != y).unwrap_or(out.len().min(again.len()));
        return Err((
            {
                // one root cause for every kind of list: a comment between the trailing comma and the closing
                // delimiter makes the comma come and go — keyed without the list kind
                let ctx = context_at(&out, off);
                format!("not-idempotent:{}", if ctx.starts_with("COMMA in LIST_ITEM of ") { "COMMA in LIST_ITEM".to_string() } else { ctx })
            },
            format!("width {width}: formatting the output again changes it at line {}:\n  1st: {:?}\n  2nd: {:?}", i + 1, a.get(i), b.get(i)),
        ));
    }
    let wide = fmt(text, 10_000)?;
    if let Some(k) = known {
        return Ok(Some(FmtStats { broke_groups: *wide != *out, comment_next_to_delim: before.comment_next_to_delim, ncomments: before.comments.len(), known: Some(k) }));
    }
    Ok(Some(FmtStats { broke_groups: *wide != *out, comment_next_to_delim: before.comment_next_to_delim, ncomments: before.comments.len(), known: None }))
}

pub const WIDTHS: &[u32] = &[90, 80, 120, 40, 79, 10, 2, 1, 10_000];

/// Layout mutant: regenerate whitespace between tokens, add comments.
pub static EXCLUDED_LINE_COMMENTS: std::sync::atomic::AtomicU64 = std::sync::atomic::AtomicU64::new(0);
pub static EXCLUDED_BLANK_RUNS: std::sync::atomic::AtomicU64 = std::sync::atomic::AtomicU64::new(0);

pub fn layout_mutant(c: &mut Choices, base: &str) -> Option<String> {
    let lx = dora_parser::lex(base);
    if !lx.errors.is_empty() {
        return None;
    }
    let n = lx.starts.len();
    let mut pieces: Vec<(TokenKind, &str)> = vec![];
    for i in 0..n {
        let s = lx.starts[i] as usize;
        let e = if i + 1 < n { lx.starts[i + 1] as usize } else { base.len() };
        pieces.push((lx.tokens[i], &base[s..e]));
    }
    let mut out = String::new();
    let mut prev_line_comment = false;
    let mode = c.below(5); // 0 = random, 1 = dense (joined), 2 = airy, 3 = comment-heavy, 4 = comments at list tails
    let mut first = true;
    for (k, t) in pieces.iter() {
        if matches!(k, TokenKind::WHITESPACE | TokenKind::NEWLINE) {
            continue;
        }
        if !first {
            // separator
            if prev_line_comment {
                out.push('\n');
            }
            // a comment between the trailing comma of a list and its closing delimiter (the comma may be
            // mandatory there: one-element tuples)
            if out.ends_with(',') && matches!(*t, ")" | "]" | "}" | "|") && c.chance(if mode == 4 { 4 } else { 1 }, 5) {
                // Known finding C17/not-idempotent:R_PAREN in TUPLE_EXPR (and a swarm of context-dependent
                // signatures of the same cause): a block comment that spans lines, placed before a closing
                // delimiter, is not laid out stably. Excluded by construction (counted); its reproducer stays.
                match c.below(3) {
                    0 => out.push_str(&format!(" // t{}\n", c.below(100))),
                    1 => out.push_str(&format!(" /* t{} */\n", c.below(100))),
                    _ => {
                        EXCLUDED_LINE_COMMENTS.fetch_add(1, std::sync::atomic::Ordering::Relaxed);
                        out.push_str(&format!(" /* t{} */ ", c.below(100)))
                    }
                }
                out.push_str(t);
                first = false;
                prev_line_comment = false;
                continue;
            }
            let sep = match mode {
                1 => c.weighted(&[6, 1, 1, 0, 0, 0]),
                4 => c.weighted(&[5, 1, 2, 0, 0, 0]),
                2 => c.weighted(&[1, 2, 3, 2, 0, 0]),
                3 => c.weighted(&[2, 1, 2, 1, 3, 3]),
                _ => c.weighted(&[3, 2, 2, 1, 1, 1]),
            };
            match sep {
                0 => out.push(' '), // candidate for joining, decided below
                1 => out.push_str("  "),
                2 => out.push('\n'),
                3 => {
                    // Known finding C17/not-idempotent:* — blank lines anywhere but between
                    // statements/items are not stable. Excluded by construction (counted):
                    // blank-line runs are only generated after `;` and `}`.
                    if out.ends_with(';') || (out.ends_with('}') && *t != "{") {
                        out.push_str("\n\n\n")
                    } else {
                        EXCLUDED_BLANK_RUNS.fetch_add(1, std::sync::atomic::Ordering::Relaxed);
                        out.push('\n')
                    }
                }
                4 => {
                    if out.ends_with(';') || out.ends_with('}') || out.ends_with('{') || out.ends_with(',') {
                        out.push_str(" /* c");
                        out.push_str(&c.below(100).to_string());
                        out.push_str(" */ ");
                    } else {
                        EXCLUDED_LINE_COMMENTS.fetch_add(1, std::sync::atomic::Ordering::Relaxed);
                        out.push(' ');
                    }
                }
                _ => {
                    // Known findings C17/comment-lost:* and not-idempotent:* — a line comment in the
                    // middle of a construct (before `:`/`{`/an operator, inside a use path …) is lost
                    // or unstable. Excluded by construction (counted): end-of-line comments are only
                    // generated after `;`, `{`, `}` and `,`; block comments stay everywhere.
                    if out.ends_with(';') || out.ends_with('}') || out.ends_with('{') || out.ends_with(',') {
                        out.push_str(" // c");
                        out.push_str(&c.below(100).to_string());
                        out.push('\n');
                    } else {
                        EXCLUDED_LINE_COMMENTS.fetch_add(1, std::sync::atomic::Ordering::Relaxed);
                        out.push(' ');
                    }
                }
            }
        }
        first = false;
        out.push_str(t);
        prev_line_comment = *k == TokenKind::LINE_COMMENT;
    }
    if prev_line_comment || c.chance(1, 2) {
        out.push('\n');
    }
    // the mutant must keep the code-token sequence of the base (sound by check)
    let a = scan(base).ok()?;
    let b = scan(&out).ok()?;
    if a.code != b.code {
        return None;
    }
    Some(out)
}

impl Prop for Format {
    type Case = FmtCase;
    fn name(&self) -> &str {
        "format"
    }
    fn generate(&self, c: &mut Choices) -> FmtCase {
        let width = WIDTHS[c.below(WIDTHS.len())];
        let fam = c.weighted(&[4, 3, 3]);
        let text = match fam {
            0 => {
                let g = textgen::grammar_program(c, 5, 6);
                TextCase { family: "grammar".into(), text: g }
            }
            1 => {
                let small = textgen::small_corpus(8000);
                let (p, base) = small[c.below(small.len())];
                match layout_mutant(c, base) {
                    Some(t) => TextCase { family: format!("layout-mutant:{}", p.display()), text: t },
                    None => TextCase { family: format!("repo-file:{}", p.display()), text: base.clone() },
                }
            }
            _ => {
                let g = textgen::grammar_program(c, 5, 5);
                match layout_mutant(c, &g) {
                    Some(t) => TextCase { family: "grammar-layout-mutant".into(), text: t },
                    None => TextCase { family: "grammar".into(), text: g },
                }
            }
        };
        FmtCase { text, width }
    }
    fn eval(&self, case: &FmtCase) -> Outcome {
        let h = hash64(&(&case.text.text, case.width));
        match check_format(&case.text.text, case.width) {
            Ok(None) => Outcome::pass(h, false).class("input-not-valid-syntax(skipped)"),
            Ok(Some(st)) => {
                let fam = case.text.family.split(':').next().unwrap_or("").to_string();
                let mut o = Outcome::pass(h, st.comment_next_to_delim && st.broke_groups)
                    .class(format!("family:{fam}"))
                    .class(format!("width:{}", case.width))
                    .class_if(st.broke_groups, "width-forced-breaks")
                    .class_if(st.ncomments > 0, "has-comments")
                    .class_if(st.comment_next_to_delim, "comment-next-to-delimiter");
                if let Some(k) = st.known {
                    o.fail = Some(Failure { key: k.to_string(), msg: format!("formatter reorders tokens ({k}); intentional canonicalisation, listed as known finding") });
                }
                o
            }
            Err((k, m)) => Outcome::fail(h, k, m),
        }
    }
    fn render(&self, case: &FmtCase) -> Value {
        json!({"family": case.text.family, "text": case.text.text, "width": case.width})
    }
    fn from_rendered(&self, v: &Value) -> Option<FmtCase> {
        Some(FmtCase { text: TextCase { family: v["family"].as_str().unwrap_or("replay").into(), text: v["text"].as_str()?.to_string() }, width: v["width"].as_u64().unwrap_or(90) as u32 })
    }
    fn minimize(&self, case: &FmtCase, fails: &dyn Fn(&FmtCase) -> bool) -> Option<FmtCase> {
        let fam = case.text.family.clone();
        let w = case.width;
        let t = ddmin_text(&case.text.text, &|s| fails(&FmtCase { text: TextCase { family: fam.clone(), text: s.to_string() }, width: w }), 2500);
        Some(FmtCase { text: TextCase { family: fam, text: t }, width: w })
    }
}

pub fn corpus_cases(widths: &[u32]) -> Vec<FmtCase> {
    let mut out = vec![];
    for (p, s) in textgen::corpus() {
        for &w in widths {
            out.push(FmtCase { text: TextCase { family: format!("repo-file:{}", p.display()), text: s.clone() }, width: w });
        }
    }
    out
}

pub fn main(mode: Mode) -> i32 {
    let p = Format;
    let iso = crate::isolate::IsolatedProp {
        inner: &p,
        pool: crate::isolate::Pool::new("C17", "format", 120),
        crash_key: Box::new(|_case: &FmtCase, _sig, stderr: &str| format!("crash:{}", if stderr.contains("overflowed its stack") { "stack-overflow" } else { "abort" })),
    };
    match mode {
        Mode::Worker(_) => crate::isolate::worker_loop(&p),
        Mode::Replay(_, doc) => {
            let mut ctx = Ctx::new("C17", "quick");
            ctx.replay(&iso, &doc)
        }
        Mode::Minimize(..) => 2,
        Mode::Run(tier) => {
            let mut ctx = Ctx::new("C17", &tier);
            ctx.rule = "cases: every repo .dora file that parses x line lengths, plus proptest choice sequences decoded into grammar-directed programs and layout mutants (whitespace regenerated between all tokens: joined, airy, blank-line runs; block and line comments inserted at token boundaries; the mutant is kept only if its code-token sequence equals the base's) x widths {1,2,10,40,79,80,90,120,10000}; oracle: formatter returns Ok without panic, output re-parses, code-token sequence equal after removing optional trailing commas (the comma of a one-element tuple is NOT optional), comment multiset equal, format(format(x)) == format(x). non-trivial = input with a comment adjacent to a delimiter/operator AND a width at which the output differs from the width-10000 output; distinct by (text,width) hash".into();
            ctx.assumptions = vec!["inputs that do not parse are outside the quantifier and skipped (counted)".into()];
            ctx.run_regressions(&iso);
            ctx.run_known_reproducers(&iso);
            let widths: &[u32] = if ctx.thorough() { WIDTHS } else { &[90, 40, 1] };
            ctx.run_enum(&iso, corpus_cases(widths));
            let n = ctx.n(30_000, 400_000);
            ctx.run_search(&iso, n, 200, 300);
            if ctx.thorough() || std::env::var("VERIF_FUZZ").is_ok() {
                let runs = ctx.n(100_000, 3_000_000) as u64;
                let fp = Format;
                crate::fuzzsup::run_campaign(&mut ctx, &fp, &crate::fuzzsup::Campaign { target: "fuzz_format", decode: crate::fuzzsup::decode_format, runs, max_len: 4096, seeds: crate::fuzzsup::repo_seeds(2500, 300, &[0]), timeout: std::time::Duration::from_secs(5000) });
            }
            ctx.note_excluded("blank-line runs at positions other than after ';' or '}' (known finding not-idempotent:*)", EXCLUDED_BLANK_RUNS.load(std::sync::atomic::Ordering::Relaxed));
            ctx.note_excluded("comments (line and block) in the middle of a construct, i.e. not after ';' '{' '}' ',' (known findings comment-lost:*, not-idempotent:*)", EXCLUDED_LINE_COMMENTS.load(std::sync::atomic::Ordering::Relaxed));
            ctx.require_class("format/width-forced-breaks");
            ctx.require_class("format/comment-next-to-delimiter");
            ctx.finish()
        }
    }
}
