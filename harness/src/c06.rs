//! C06 — the front end never crashes, whatever text it is given.

use crate::textgen::{self, TextCase};
use crate::vcore::*;
use dora_frontend::sema::{Sema, SemaCreationParams};
use serde_json::{Value, json};

pub struct FrontEnd {
    /// emit bytecode for error-free inputs as well (the driver does)
    pub emit: bool,
}

pub struct SemaReport {
    pub success: bool,
    pub errors: usize,
    pub warnings: usize,
    pub parse_errors_in_program: usize,
    pub rendered_len: usize,
}

/// Run the whole front end the way `dora compile` does and check what C06 states.
pub fn run_front_end(text: &str, emit: bool) -> Result<SemaReport, (String, String)> {
    let text_owned = text.to_string();
    let r = guarded(move || -> Result<SemaReport, (String, String)> {
        let params = SemaCreationParams::new().set_program_content(text_owned.clone());
        let mut sa = Sema::new(params);
        let success = dora_frontend::check_program(&mut sa);
        let has_errors = sa.diag.borrow().has_errors();
        if success == has_errors {
            return Err(("success-flag".into(), format!("check_program returned {success} but has_errors() = {has_errors}")));
        }
        let mut nerr = 0;
        let mut nwarn = 0;
        {
            let diag = sa.diag.borrow();
            for (is_err, d) in diag.errors().iter().map(|d| (true, d)).chain(diag.warnings().iter().map(|d| (false, d))) {
                if is_err {
                    nerr += 1
                } else {
                    nwarn += 1
                }
                if let (Some(fid), Some(span)) = (d.file_id, d.span) {
                    let file = sa.file(fid);
                    let len = file.content.len();
                    if span.end() as usize > len {
                        return Err((
                            "diag-span-outside-file".into(),
                            format!("diagnostic {:?} has span {} but file {} has {} bytes", d.desc.message, span, file.path.display(), len),
                        ));
                    }
                    if !file.content.is_char_boundary(span.start() as usize) {
                        return Err((
                            "diag-span-not-on-char-boundary".into(),
                            format!("diagnostic {:?} starts at {} inside a multi-byte character of {}", d.desc.message, span.start(), file.path.display()),
                        ));
                    }
                }
            }
        }
        // what the driver prints
        let rendered = sa.diag.borrow_mut().dump_to_string(&sa, false);
        if has_errors && !rendered.contains("error") {
            return Err(("unreadable-report".into(), "errors present but rendered report has no 'error' line".into()));
        }
        let rendered_len = rendered.len();
        if !has_errors && emit {
            let _prog = dora_frontend::emit_program(sa);
        }
        Ok(SemaReport { success, errors: nerr, warnings: nwarn, parse_errors_in_program: 0, rendered_len })
    });
    match r {
        Ok(Ok(rep)) => Ok(rep),
        Ok(Err(e)) => Err(e),
        Err(p) => Err((p.key(), format!("front end panicked: {} at {}\n{}", p.message, p.location, trim_bt(&p.backtrace)))),
    }
}

pub fn trim_bt(bt: &str) -> String {
    // keep frames from the panic to the harness
    let mut out = vec![];
    let mut on = false;
    for l in bt.lines() {
        if l.contains("rust_begin_unwind") {
            on = true;
        }
        if l.contains("vh::c06::run_front_end") || l.contains("vh::vcore::guarded") {
            break;
        }
        if on {
            out.push(l);
        }
        if out.len() > 60 {
            break;
        }
    }
    out.join("\n")
}

impl Prop for FrontEnd {
    type Case = TextCase;
    fn name(&self) -> &str {
        "front-end"
    }
    fn generate(&self, c: &mut Choices) -> TextCase {
        textgen::gen_text_case(c)
    }
    fn eval(&self, case: &TextCase) -> Outcome {
        let h = hash64(&case.text);
        // lexing happens when the parser is constructed: a panic there is a front-end crash like any other
        let text = case.text.clone();
        let perr = match guarded(move || dora_parser::Parser::from_shared_string(std::sync::Arc::new(text)).parse().1.len()) {
            Ok(n) => n,
            Err(p) if p.location.contains("dora-parser/src/lexer") => return Outcome::fail(h, p.key(), format!("lexer panicked: {} at {}", p.message, p.location)),
            Err(_) => usize::MAX,
        };
        match run_front_end(&case.text, self.emit) {
            Ok(rep) => {
                let fam = case.family.split(':').next().unwrap_or("").split('/').next().unwrap_or("").to_string();
                // non-trivial: reached semantic analysis with >=1 recovered parse error or >=1 semantic diagnostic
                let nontrivial = !case.text.trim().is_empty() && ((perr > 0 && perr != usize::MAX) || rep.errors > 0);
                Outcome::pass(h, nontrivial)
                    .class(format!("family:{fam}"))
                    .class_if(perr > 0 && perr != usize::MAX, "recovered-parse-errors")
                    .class_if(perr == 0 && rep.errors > 0, "semantic-errors-only")
                    .class_if(rep.success, "accepted")
                    .class_if(rep.warnings > 0, "warnings")
            }
            Err((key, msg)) => Outcome::fail(h, key, msg),
        }
    }
    fn render(&self, case: &TextCase) -> Value {
        json!({"family": case.family, "text": case.text})
    }
    fn minimize(&self, case: &TextCase, fails: &dyn Fn(&TextCase) -> bool) -> Option<TextCase> {
        let fam = case.family.clone();
        let t = ddmin_text(&case.text, &|s| fails(&TextCase { family: fam.clone(), text: s.to_string() }), 500);
        Some(TextCase { family: fam, text: t })
    }
    fn crash_capture(&self) -> bool {
        true
    }
    fn from_rendered(&self, v: &Value) -> Option<TextCase> {
        Some(TextCase { family: v["family"].as_str().unwrap_or("replay").to_string(), text: v["text"].as_str()?.to_string() })
    }
}

/// Stand-alone repo files (tests, benches) go through sema; pkgs files are parse-only (C16 covers them).
pub fn corpus_cases() -> Vec<TextCase> {
    textgen::corpus()
        .iter()
        .filter(|(p, _)| !p.starts_with("/repo/pkgs"))
        .map(|(p, s)| TextCase { family: format!("repo-file:{}", p.display()), text: s.clone() })
        .collect()
}

/// Tag for hard crashes, so that a known stack overflow does not mask a different one.
pub fn crash_tag(text: &str, stderr: &str) -> String {
    let kind = if stderr.contains("overflowed its stack") { "stack-overflow" } else { "abort" };
    format!("crash:{kind}:{}", if has_super_trait_cycle(text) { "super-trait-cycle" } else { "other" })
}

/// Does the text declare traits whose super-trait relation is cyclic (by name)?
pub fn has_super_trait_cycle(text: &str) -> bool {
    use std::collections::{BTreeMap, BTreeSet};
    let toks: Vec<&str> = text
        .split(|c: char| !(c.is_alphanumeric() || c == '_' || c == '{' || c == ';' || c == ':'))
        .flat_map(|w| {
            // split punctuation glued to words
            let mut v = vec![];
            let mut s = 0;
            for (i, ch) in w.char_indices() {
                if ch == '{' || ch == ';' || ch == ':' {
                    if i > s {
                        v.push(&w[s..i]);
                    }
                    v.push(&w[i..i + 1]);
                    s = i + 1;
                }
            }
            if s < w.len() {
                v.push(&w[s..]);
            }
            v
        })
        .filter(|w| !w.is_empty())
        .collect();
    let mut edges: BTreeMap<String, BTreeSet<String>> = BTreeMap::new();
    let mut i = 0;
    while i < toks.len() {
        if toks[i] == "trait" && i + 1 < toks.len() {
            let name = toks[i + 1].to_string();
            let mut j = i + 2;
            let mut after_colon = false;
            while j < toks.len() && toks[j] != "{" && toks[j] != ";" && toks[j] != "trait" {
                if toks[j] == ":" {
                    after_colon = true;
                } else if after_colon {
                    edges.entry(name.clone()).or_default().insert(toks[j].to_string());
                }
                j += 1;
            }
            i = j;
        } else {
            i += 1;
        }
    }
    // cycle detection
    fn reach(edges: &BTreeMap<String, BTreeSet<String>>, from: &str, to: &str, seen: &mut BTreeSet<String>) -> bool {
        let Some(ns) = edges.get(from) else { return false };
        for n in ns {
            if n == to {
                return true;
            }
            if seen.insert(n.clone()) && reach(edges, n, to, seen) {
                return true;
            }
        }
        false
    }
    edges.keys().any(|k| reach(&edges, k, k, &mut BTreeSet::new()))
}

pub fn main(mode: Mode) -> i32 {
    let p = FrontEnd { emit: false };
    match mode {
        Mode::Worker(_) => crate::isolate::worker_loop(&p),
        Mode::Replay(_, doc) => {
            let mut ctx = Ctx::new("C06", "quick");
            let iso = crate::isolate::IsolatedProp {
                inner: &p,
                pool: crate::isolate::Pool::new("C06", "front-end", 60),
                crash_key: Box::new(|case: &TextCase, _sig, stderr: &str| crash_tag(&case.text, stderr)),
            };
            ctx.replay(&iso, &doc)
        }
        Mode::Minimize(..) => 2,
        Mode::Run(tier) => {
            let mut ctx = Ctx::new("C06", &tier);

            ctx.rule = "cases: every stand-alone repo .dora file (test/, bench/) through lexer+parser+semantic analysis (+bytecode emission when accepted), plus proptest choice sequences decoded into token soups, grammar-directed programs and token-level mutants of repo files / generated programs; oracle: no panic (catch_unwind), success flag == no error diagnostics, every located diagnostic lies inside the file it names and starts on a char boundary, the rendered report (what the driver prints) is produced; sample through the real `dora compile -c` checks exit status 1 without backtrace. non-trivial = non-empty text that reached semantic analysis with >=1 recovered parse error or >=1 semantic diagnostic; distinct by text hash".into();
            ctx.assumptions = vec!["size <= 64 KiB, bracket nesting <= 64; a case running > 60 s is reported as HANG-SUSPECT (exit 2)".into()];
            let iso = crate::isolate::IsolatedProp {
                inner: &p,
                pool: crate::isolate::Pool::new("C06", "front-end", 60),
                crash_key: Box::new(|case: &TextCase, _sig, stderr: &str| crash_tag(&case.text, stderr)),
            };
            ctx.run_regressions(&iso);
            ctx.run_known_reproducers(&iso);
            ctx.run_enum(&iso, corpus_cases());
            let n = ctx.n(8_000, 120_000);
            ctx.run_search(&iso, n, 160, 150);
            if ctx.thorough() || std::env::var("VERIF_FUZZ").is_ok() {
                // in-process (the fuzzer needs coverage feedback); artifacts are re-judged through the isolated path
                let runs = ctx.n(20_000, 400_000) as u64;
                let fp = FrontEnd { emit: true };
                crate::fuzzsup::run_campaign(&mut ctx, &fp, &crate::fuzzsup::Campaign { target: "fuzz_sema", decode: crate::fuzzsup::decode_text_sema, runs, max_len: 2048, seeds: crate::fuzzsup::repo_seeds(1500, 200, b""), timeout: std::time::Duration::from_secs(5000) });
            }
            ctx.extra.insert("isolation".into(), json!("every case is evaluated in a worker process; a dead worker is attributed to its case, a case over 60 s is killed and counted inconclusive"));
            ctx.require_class("front-end/recovered-parse-errors");
            ctx.require_class("front-end/semantic-errors-only");
            ctx.finish()
        }
    }
}
