//! C13 — running out of stack or heap ends in the documented trap, never in a crash.

use crate::runner::*;
use crate::vcore::*;
use serde_json::{Value, json};
use std::time::Duration;

#[derive(Clone, Debug)]
pub struct LimitCase {
    pub label: String,
    pub source: String,
    pub gc: String,
    pub runtime_args: String,
    /// acceptable (status, message) pairs
    pub accept: Vec<(i32, String)>,
    /// partner program that must NOT trap (same shape, bounded)
    pub partner: Option<String>,
    pub partner_stdout: Option<String>,
    pub arg_class: String,
}

pub struct Limits {
    pub tools: Tools,
}

const BIG_PRELUDE: &str = "struct S1 { a: Int64, b: Int64, c: Int64, d: Int64, e: Int64, f: Int64, g: Int64, h: Int64 }\nstruct S2 { a: S1, b: S1, c: S1, d: S1, e: S1, f: S1, g: S1, h: S1 }\nstruct S3 { a: S2, b: S2, c: S2, d: S2, e: S2, f: S2, g: S2, h: S2 }\nstruct S4 { a: S3, b: S3, c: S3, d: S3, e: S3, f: S3, g: S3, h: S3 }\nfn mk1(x: Int64): S1 { S1(a = x, b = x + 1, c = x + 2, d = x + 3, e = x + 4, f = x + 5, g = x + 6, h = x + 7) }\nfn mk2(x: Int64): S2 { let v = mk1(x); S2(a = v, b = v, c = v, d = v, e = v, f = v, g = v, h = v) }\nfn mk3(x: Int64): S3 { let v = mk2(x); S3(a = v, b = v, c = v, d = v, e = v, f = v, g = v, h = v) }\nfn mk4(x: Int64): S4 { let v = mk3(x); S4(a = v, b = v, c = v, d = v, e = v, f = v, g = v, h = v) }\n";

thread_local! {
    /// (prelude, estimated frame bytes) of the frame shape generated last on this thread
    static LAST_FRAME: std::cell::RefCell<(String, usize)> = const { std::cell::RefCell::new((String::new(), 0)) };
}

fn frame_shape(c: &mut Choices) -> (String, String, String) {
    // (extra params, locals block using n, result expression) for a recursive function body
    let nloc = *c.pick(&[0usize, 1, 4, 16, 64, 200, 400]);
    let mut locals = String::new();
    let mut sum = String::from("0");
    // by-value struct locals of 4 KiB (S3) or 32 KiB (S4): frames from a few KiB to ~100 KiB plus by-value temporaries (the managed stack is 500 KiB), i.e. larger than
    // a guard page, than the red zone below the stack limit and than what a tight thread stack leaves below it
    let (nbig, level) = *c.pick(&[(0usize, 3usize), (0, 3), (0, 3), (1, 3), (3, 3), (16, 3), (1, 4), (2, 4), (3, 4)]);
    for i in 0..nbig {
        locals.push_str(&format!("    let b{i} = mk{level}(n + {i});\n"));
        sum.push_str(&format!(" + b{i}.{}", if level == 4 { "a.b.c.d" } else { "a.b.c" }));
    }
    LAST_FRAME.with(|f| *f.borrow_mut() = (if nbig > 0 { BIG_PRELUDE.to_string() } else { String::new() }, nbig * if level == 4 { 32 << 10 } else { 4 << 10 }));
    for i in 0..nloc {
        locals.push_str(&format!("    let l{i}: Int64 = n + {i};\n"));
        if i % 7 == 0 {
            sum.push_str(&format!(" + l{i}"));
        }
    }
    let tuple_words = *c.pick(&[0usize, 0, 2, 8, 32, 128, 512]);
    let (params, pass) = if tuple_words > 0 {
        let ty = format!("({})", vec!["Int64"; tuple_words].join(", "));
        (format!(", t: {ty}"), ", t".to_string())
    } else {
        (String::new(), String::new())
    };
    let _ = pass;
    (params, locals, sum)
}

fn tuple_value(params: &str) -> String {
    let n = params.matches("Int64").count();
    if n == 0 { String::new() } else { format!(", ({})", (0..n).map(|i| i.to_string()).collect::<Vec<_>>().join(", ")) }
}

pub fn gen_limit(c: &mut Choices) -> LimitCase {
    let gc = c.pick_str(&["swiper", "copy", "sweep", "swiper", "zero"]).to_string();
    let heap = c.pick_str(&["", "--max-heap-size=32M", "--max-heap-size=64M", "--max-heap-size=256M", "--max-heap-size=16M"]).to_string();
    let kind = c.weighted(&[6, 3, 5, 6]);
    let stack = vec![(107, "stack overflow".to_string())];
    let oom = vec![(106, "out of memory".to_string())];
    match kind {
        0 | 1 => {
            // stack exhaustion
            let (params, locals, sum) = frame_shape(c);
            let (prelude, frame_bytes) = LAST_FRAME.with(|f| f.borrow().clone());
            // the bounded partner must fit a spawned thread's stack comfortably
            let partner_depth = if frame_bytes == 0 { 20 } else { ((400usize << 10) / (3 * frame_bytes)).saturating_sub(1).clamp(0, 20) };
            let tv = tuple_value(&params);
            let pass = if params.is_empty() { "" } else { ", t" };
            let shape = c.below(6);
            let on_thread = kind == 1;
            let (defs, call, name): (String, String, &str) = match shape {
                0 => (format!("fn rec(n: Int64{params}): Int64 {{\n{locals}    if n == LIMIT {{ return {sum}; }}\n    let r = rec(n + 1{pass});\n    r + {sum}\n}}\n"), format!("rec(0{tv})"), "plain"),
                1 => (
                    format!("fn ra(n: Int64{params}): Int64 {{\n{locals}    if n == LIMIT {{ return {sum}; }}\n    rb(n + 1{pass}) + 1\n}}\nfn rb(n: Int64{params}): Int64 {{\n{locals}    ra(n + 1{pass}) + {sum}\n}}\n"),
                    format!("ra(0{tv})"),
                    "mutual",
                ),
                2 => (format!("fn rec[T](x: T, n: Int64{params}): Int64 {{\n{locals}    if n == LIMIT {{ return {sum}; }}\n    rec[T](x, n + 1{pass}) + {sum}\n}}\n"), format!("rec[String](\"s\", 0{tv})"), "generic"),
                3 => (
                    format!("trait Rt {{ fn go(n: Int64{params}): Int64; }}\nclass Rk {{ v: Int64 }}\nimpl Rt for Rk {{\n    fn go(n: Int64{params}): Int64 {{\n{locals}        if n == LIMIT {{ return {sum}; }}\n        let o: Rt = self as Rt;\n        o.go(n + 1{pass}) + self.v\n    }}\n}}\n"),
                    format!("(Rk(v = 1) as Rt).go(0{tv})"),
                    "trait-object",
                ),
                4 => (
                    format!("class Rc {{ f: (Int64): Int64 }}\nfn mk(): Rc {{\n    let c = Rc(f = |n: Int64|: Int64 {{ n }});\n    c.f = |n: Int64|: Int64 {{\n        if n == LIMIT {{ return 0; }}\n        let g = c.f;\n        g(n + 1) + 1\n    }};\n    c\n}}\n"),
                    "{ let c = mk(); let g = c.f; g(0) }".to_string(),
                    "lambda",
                ),
                _ => (
                    format!("fn rec(n: Int64{params}): Int64 {{\n{locals}    if n == LIMIT {{ return {sum}; }}\n    ((((rec(n + 1{pass}) + 1) * 1 + (n - n)) + ({sum})) - 0) + (if n > 5 {{ 1 }} else {{ 2 }})\n}}\n"),
                    format!("rec(0{tv})"),
                    "deep-expression",
                ),
            };
            let body = |limit: &str| {
                let d = format!("{prelude}{}", defs.replace("LIMIT", limit));
                if on_thread {
                    format!("{d}fn main() {{\n    println(\"start\");\n    let t = std::thread::spawn(||: () {{\n        let r = {call};\n        println(\"done ${{r > 0 || r <= 0}}\");\n    }});\n    t.join();\n    println(\"end\");\n}}\n")
                } else {
                    format!("{d}fn main() {{\n    println(\"start\");\n    let r = {call};\n    println(\"done ${{r > 0 || r <= 0}}\");\n    println(\"end\");\n}}\n")
                }
            };
            LimitCase {
                label: format!("stack:{name}:{}:{}{}", if on_thread { "spawned-thread" } else { "main-thread" }, if params.is_empty() { "no-tuple" } else { "tuple-param" }, if frame_bytes >= 64 << 10 { ":frame>=64K" } else if frame_bytes > 0 { ":frame>=4K" } else { "" }),
                source: body("-1"),
                gc,
                runtime_args: heap,
                accept: stack,
                // no bounded partner for frames with by-value struct locals: the optimizing compiler's frame for them is
                // several times the size of the data (418 KiB for two 32 KiB structs), so even one or two activations may
                // legitimately exceed the 500 KiB managed stack
                partner: if frame_bytes > 0 { None } else { Some(body(&partner_depth.to_string())) },
                partner_stdout: if frame_bytes > 0 { None } else { Some("start\ndone true\nend\n".into()) },
                arg_class: String::new(),
            }
        }
        2 => {
            // retention beyond the heap
            let elem = *c.pick(&[("Int64", "0", 8usize), ("UInt8", "0u8", 1), ("(Int64, Int64, Int64)", "(0, 0, 0)", 24), ("Int32", "0i32", 4)]);
            let chunk = *c.pick(&[16usize, 1000, 50_000]);
            let shape = c.below(3);
            let prog = |rounds: &str| match shape {
                0 => format!("fn main() {{\n    println(\"start\");\n    let keep = Vec[Array[{t}]]::new();\n    let mut i = 0;\n    while i < {rounds} {{\n        keep.push(Array[{t}]::fill({chunk}, {v}));\n        i = i + 1;\n    }}\n    println(\"kept ${{keep.size()}}\");\n}}\n", t = elem.0, v = elem.1),
                1 => format!("class Node {{ next: Option[Node], payload: Array[{t}] }}\nfn main() {{\n    println(\"start\");\n    let mut head: Option[Node] = None[Node];\n    let mut i = 0;\n    while i < {rounds} {{\n        head = Some[Node](Node(next = head, payload = Array[{t}]::fill({chunk}, {v})));\n        i = i + 1;\n    }}\n    println(\"kept ${{head.is_some()}}\");\n}}\n", t = elem.0, v = elem.1),
                _ => format!("fn main() {{\n    println(\"start\");\n    let keep = Vec[String]::new();\n    let mut i = 0;\n    while i < {rounds} {{\n        keep.push(\"item ${{i}} ${{i * {chunk}}} padding padding padding padding\");\n        i = i + 1;\n    }}\n    println(\"kept ${{keep.size()}}\");\n}}\n"),
            };
            // enough rounds to exceed 512 MiB of live data with any chunk size; partner stays tiny
            let bytes_per_round = if shape == 2 { 64 } else { (chunk * elem.2).max(64) };
            let rounds = (600usize << 20) / bytes_per_round + 10;
            let heap = if heap.is_empty() { "--max-heap-size=64M".to_string() } else { heap };
            let heap = if heap.contains("256M") { "--max-heap-size=128M".to_string() } else { heap };
            LimitCase {
                label: format!("heap:retention:{}:{}", ["vec-of-arrays", "linked-list", "strings"][shape], elem.0),
                source: prog(&rounds.to_string()),
                gc: if gc == "zero" { "copy".into() } else { gc },
                runtime_args: heap,
                accept: oom,
                partner: Some(prog("2")),
                partner_stdout: None,
                arg_class: String::new(),
            }
        }
        _ => {
            // single object of impossible / oversized length
            let elem = *c.pick(&[("Int64", "0"), ("UInt8", "0u8"), ("(Int64, Int64, Int64)", "(0, 0, 0)"), ("Int32", "0i32"), ("Bool", "false"), ("Float64", "0.0"), ("(UInt8, UInt8, UInt8)", "(0u8, 0u8, 0u8)")]);
            let (len, class) = *c.pick(&[
                ("-1", "negative"),
                ("(-9223372036854775807 - 1)", "negative"),
                ("-4096", "negative"),
                ("2147483648", "oversized"),
                ("4294967296", "oversized"),
                ("536870912", "oversized"),
                ("1431655766", "oversized"),
                ("2305843009213693953", "astronomic"),
                ("2305843009213693952", "astronomic"),
                ("9223372036854775807", "astronomic"),
                ("1152921504606846975", "astronomic"),
                ("768614336404564651", "astronomic"),
                ("100000000", "oversized"),
            ]);
            let ctor = c.below(4);
            let alloc = match ctor {
                0 => format!("Array[{}]::fill({len}, {})", elem.0, elem.1),
                1 if matches!(elem.0, "Int64" | "UInt8" | "Int32" | "Bool" | "Float64") => format!("Array[{}]::zero({len})", elem.0),
                2 => format!("Vec[{}]::new_with_capacity({len})", elem.0),
                _ => format!("Array[{}]::fill({len}, {})", elem.0, elem.1),
            };
            let is_vec = alloc.starts_with("Vec");
            let touch = if is_vec { "    a.push(X);\n    println(\"size ${a.size()}\");\n".replace('X', elem.1) } else { "    println(\"size ${a.size()}\");\n    if a.size() > 0 { a(a.size() - 1) = X; a(0) = X; }\n".replace('X', elem.1) };
            let source = format!("fn main() {{\n    println(\"start\");\n    let a = {alloc};\n{touch}    println(\"end\");\n}}\n");
            let heap = if heap.is_empty() || heap.contains("256M") { "--max-heap-size=64M".to_string() } else { heap };
            LimitCase {
                label: format!("heap:single-object:{}:{}", ["fill", "zero", "vec-capacity", "fill"][ctor], elem.0),
                source,
                gc: if gc == "zero" { "swiper".into() } else { gc },
                runtime_args: heap,
                // an impossible size is refused with a documented trap: out of memory, or the overflow trap
                accept: vec![(106, "out of memory".into()), (109, "overflow".into())],
                partner: None,
                partner_stdout: None,
                arg_class: class.to_string(),
            }
        }
    }
}

impl Prop for Limits {
    type Case = LimitCase;
    fn name(&self) -> &str {
        "limits"
    }
    fn generate(&self, c: &mut Choices) -> LimitCase {
        gen_limit(c)
    }
    fn eval(&self, case: &LimitCase) -> Outcome {
        let h = hash64(&(&case.source, &case.gc, &case.runtime_args));
        let scratch = Scratch::new("c13");
        let src = scratch.file("prog.dora");
        std::fs::write(&src, &case.source).unwrap();
        let fam: String = case.label.split(':').take(3).collect::<Vec<_>>().join(":");
        let tag = if case.arg_class.is_empty() { fam.clone() } else { format!("{fam}:{}", case.arg_class) };
        for b in Backend::BOTH {
            let exe = scratch.file(&format!("prog-{}", b.name()));
            let cr = compile(&self.tools, &src, &exe, b, &CompileOpts { gc: Some(case.gc.clone()), extra: vec![] }, Duration::from_secs(240));
            if cr.timed_out {
                return Outcome { inconclusive: Some("compile timed out".into()), hash: h, ..Default::default() };
            }
            if !cr.ok() {
                let err = cr.stderr_str();
                let sig = crate::c01::compile_failure_signature(&err);
                // the optimizing compiler itself may run out of its own heap on enormous frames: harness-side limit
                if sig.contains("out of memory") {
                    return Outcome { inconclusive: Some(format!("{} compiler ran out of memory on this frame shape", b.name())), hash: h, ..Default::default() };
                }
                return Outcome::fail(h, format!("compile-failed:{}:{}@{}", b.name(), sig, tag), format!("{} generator: compile failed\n{}", b.name(), truncate_str(&crate::c01::strip_warnings(&err), 2000)));
            }
            let rr = run_exe(&exe, &case.runtime_args, Duration::from_secs(120), &scratch.path);
            if rr.timed_out {
                return Outcome { inconclusive: Some(format!("{} executable still running after 120 s (hang suspect)", b.name())), hash: h, ..Default::default() };
            }
            let ending = classify(&rr);
            let ok = match &ending {
                Ending::Trap(c, m) => case.accept.iter().any(|(ac, am)| ac == c && am == m),
                _ => false,
            };
            if !ok {
                let what = match &ending {
                    Ending::Signal(s) => format!("signal-{s}"),
                    Ending::Exit(c) => format!("exit-{c}(no trap)"),
                    Ending::Trap(c, _) => format!("wrong-trap-{c}"),
                    Ending::Fatal(_) => "fatal".to_string(),
                    Ending::RuntimePanic(_) => "runtime-panic".to_string(),
                    _ => "other".to_string(),
                };
                let fam3: Vec<&str> = case.label.split(':').collect();
                let key = if case.arg_class.is_empty() {
                    format!("not-refused@{}:{}:{}", fam, b.name(), what)
                } else {
                    format!("not-refused@single-object:{}:{}:{}:{}", case.arg_class, b.name(), fam3.get(2).unwrap_or(&""), what)
                };
                return Outcome::fail(
                    h,
                    key,
                    format!("{} generator, --gc={} DORA_FLAGS={:?}: expected one of {:?}, the run ended with {:?}\nstdout: {:?}\nstderr: {}", b.name(), case.gc, case.runtime_args, case.accept, ending, truncate_str(&rr.stdout_str(), 200), truncate_str(&rr.stderr_str(), 400)),
                );
            }
            let stderr = rr.stderr_str();
            if stderr.lines().count() < 2 {
                return Outcome::fail(h, format!("no-stack-trace:{}@{}", b.name(), fam), format!("trap without a stack trace: {stderr:?}"));
            }
            if !rr.stdout_str().starts_with("start\n") {
                return Outcome::fail(h, format!("stdout-lost:{}@{}", b.name(), fam), "output before the trap was lost".to_string());
            }
            if let Some(p) = &case.partner {
                let psrc = scratch.file("partner.dora");
                std::fs::write(&psrc, p).unwrap();
                let pexe = scratch.file(&format!("partner-{}", b.name()));
                let cr = compile(&self.tools, &psrc, &pexe, b, &CompileOpts { gc: Some(case.gc.clone()), extra: vec![] }, Duration::from_secs(240));
                if !cr.ok() {
                    return Outcome { inconclusive: Some("partner program failed to compile".into()), hash: h, ..Default::default() };
                }
                let pr = run_exe(&pexe, &case.runtime_args, Duration::from_secs(60), &scratch.path);
                let pe = classify(&pr);
                if pe != Ending::Exit(0) || case.partner_stdout.as_ref().map(|s| s != &pr.stdout_str()).unwrap_or(false) {
                    return Outcome::fail(h, format!("partner-trapped:{}@{}", b.name(), fam), format!("{} generator: the bounded partner program must run to completion, it ended with {:?} / stdout {:?}", b.name(), pe, pr.stdout_str()));
                }
            }
        }
        Outcome::pass(h, true).class(format!("family:{fam}")).class(format!("gc:{}", case.gc)).class_if(!case.arg_class.is_empty(), &format!("length:{}", case.arg_class))
    }
    fn render(&self, case: &LimitCase) -> Value {
        json!({"label": case.label, "source": case.source, "gc": case.gc, "runtime_args": case.runtime_args, "accept": case.accept, "partner": case.partner, "partner_stdout": case.partner_stdout, "arg_class": case.arg_class})
    }
    fn from_rendered(&self, v: &Value) -> Option<LimitCase> {
        Some(LimitCase {
            label: v["label"].as_str()?.into(),
            source: v["source"].as_str()?.into(),
            gc: v["gc"].as_str()?.into(),
            runtime_args: v["runtime_args"].as_str().unwrap_or("").into(),
            accept: v["accept"].as_array()?.iter().filter_map(|p| Some((p[0].as_i64()? as i32, p[1].as_str()?.to_string()))).collect(),
            partner: v["partner"].as_str().map(String::from),
            partner_stdout: v["partner_stdout"].as_str().map(String::from),
            arg_class: v["arg_class"].as_str().unwrap_or("").into(),
        })
    }
}

pub fn main(mode: Mode) -> i32 {
    let p = Limits { tools: Tools::release() };
    match mode {
        Mode::Worker(_) => 2,
        Mode::Minimize(_, doc) => {
            let mut ctx = Ctx::new("C13", "quick");
            ctx.minimize_stored(&p, &doc, 100)
        }
        Mode::Replay(_, doc) => {
            let mut ctx = Ctx::new("C13", "quick");
            ctx.replay(&p, &doc)
        }
        Mode::Run(tier) => {
            let mut ctx = Ctx::new("C13", &tier);
            if !p.tools.has_boots() {
                println!("INCONCLUSIVE property=C13 the optimizing compiler could not be bootstrapped from this tree");
                return 2;
            }
            ctx.rule = "cases: (stack) unbounded recursion — plain, mutual, generic, through a trait object, through a lambda stored in a class, with deep expression temporaries — with generated frame shapes (0-400 locals, by-value tuple parameters of 0-512 words, 0-16 by-value struct locals of 4 or 32 KiB, i.e. frames up to ~100 KiB plus temporaries), on the main thread and on a spawned thread, each (except the ones with by-value struct locals) with a bounded partner program (same shape, depth 20) that must run to completion; (heap) retention loops (Vec of arrays, linked list with payload arrays, strings) that keep > 600 MiB alive under a 16-128 MiB heap, with a 3-round partner; single allocations (Array::fill/zero, Vec::new_with_capacity) over element sizes 1/3/4/8/24 bytes with lengths from {negative, 10^8, 2^29, 2^31, 2^32, 1431655766, 2^60-1, 2^61, 2^61+1, Int64 max, …}; x collectors {swiper, copy, sweep, zero} x heap sizes x both code generators. oracle: exit status 107 'stack overflow' resp. 106 'out of memory' (for impossible sizes 106 or 109 'overflow') with a stack trace and the output printed before — never a signal, a hang, a runtime panic or a successful run with a bogus object; partner programs exit 0. non-trivial = every case (each reaches the limit by construction); distinct by (source, collector, flags) hash".into();
            ctx.run_regressions(&p);
            ctx.run_known_reproducers(&p);
            let n = ctx.n(100, 3000);
            ctx.run_search(&p, n, 30, 0);
            ctx.require_class("limits/family:stack:plain:main-thread");
            ctx.finish()
        }
    }
}
