//! C01 — compiled programs behave exactly as the language semantics prescribe.

use crate::progen::{interp, ir, pgen};
use crate::runner::*;
use crate::vcore::*;
use serde_json::{Value, json};
use std::time::Duration;

pub struct Semantics {
    pub tools: Tools,
    pub profile: pgen::Profile,
}

#[derive(Clone, Debug)]
pub struct ProgCase {
    pub source: String,
    pub expected: Option<interp::Expected>,
    pub stats: Vec<(String, u64)>,
    pub features: Vec<String>,
}

pub fn make_case(c: &mut Choices, profile: pgen::Profile) -> ProgCase {
    let p = pgen::generate(c, profile);
    let source = ir::print_program(&p);
    let (expected, stats) = interp::Interp::new(&p, 400_000).run();
    let mut stats: Vec<(String, u64)> = stats.into_iter().map(|(k, v)| (k.to_string(), v)).collect();
    stats.sort();
    ProgCase { source, expected, stats, features: p.features.iter().map(|s| s.to_string()).collect() }
}

pub fn expected_to_json(e: &Option<interp::Expected>) -> Value {
    match e {
        Some(e) => json!({"stdout": e.stdout, "status": e.status, "message": e.message, "kind": e.kind}),
        None => Value::Null,
    }
}

pub fn expected_from_json(v: &Value) -> Option<interp::Expected> {
    if v.is_null() {
        return None;
    }
    Some(interp::Expected {
        stdout: v["stdout"].as_str()?.to_string(),
        status: v["status"].as_i64()? as i32,
        message: v["message"].as_str().map(String::from),
        kind: match v["kind"].as_str()? {
            "trap" => "trap",
            "fatal" => "fatal",
            _ => "exit",
        },
    })
}

/// Signature of a failed compilation: first error / fatal / panic line plus the innermost
/// compiler frame (function name only, no positions).
/// Drop the compiler's warning blocks (unused variables etc.) from its stderr.
pub fn strip_warnings(stderr: &str) -> String {
    let mut out = String::new();
    let mut in_warning = false;
    for l in stderr.lines() {
        if l.starts_with("warning:") {
            in_warning = true;
            continue;
        }
        if in_warning && (l.starts_with("-->") || l.starts_with(" |") || l.trim_start().starts_with('~') || l.trim().is_empty()) {
            continue;
        }
        in_warning = false;
        if l.starts_with("/usr/bin/ld:") {
            continue;
        }
        out.push_str(l);
        out.push('\n');
    }
    out
}

pub fn compile_failure_signature(stderr: &str) -> String {
    let stderr = strip_warnings(stderr);
    let lines: Vec<&str> = stderr.lines().collect();
    for (i, l) in lines.iter().enumerate() {
        let t = l.trim_start();
        if t.starts_with("error") || t.starts_with("fatal error") || t.contains("panicked at") || TRAPS.iter().any(|(_, m)| t == *m) {
            let mut sig = normalise_msg(t);
            if t.contains("panicked at") {
                // next line is the panic message
                if let Some(n) = lines.get(i + 1) {
                    sig = format!("panic:{}", normalise_msg(n.trim()));
                }
            }
            // innermost non-std frame
            for f in lines.iter().skip(i + 1).take(12) {
                let f = f.trim();
                if f.is_empty() || f.starts_with("std::") || f.starts_with("-->") || f.starts_with('|') {
                    continue;
                }
                if let Some((name, _)) = f.split_once(" (") {
                    if !name.starts_with("std::") {
                        sig.push_str(&format!("@{name}"));
                        break;
                    }
                }
            }
            return sig;
        }
    }
    normalise_msg(lines.iter().rev().find(|l| !l.trim().is_empty()).copied().unwrap_or(""))
}

/// Compile with one back end and compare the run with the expectation.
pub fn check_backend(tools: &Tools, scratch: &Scratch, src: &std::path::Path, backend: Backend, exp: &interp::Expected) -> Result<(), (String, String, bool)> {
    let exe = scratch.file(&format!("prog-{}", backend.name()));
    let cr = compile(tools, src, &exe, backend, &CompileOpts::default(), Duration::from_secs(120));
    if cr.timed_out {
        return Err(("compile-timeout".into(), "compile timed out".into(), true));
    }
    if !cr.ok() {
        let err = cr.stderr_str();
        let first = compile_failure_signature(&err);
        return Err((format!("compile-failed:{}:{}", backend.name(), first), format!("{} generator: dora compile failed (status {:?}, signal {:?})\n{}", backend.name(), cr.status, cr.signal, truncate_str(&strip_warnings(&err), 3000)), false));
    }
    let rr = run_exe(&exe, "", Duration::from_secs(20), &scratch.path);
    if rr.timed_out {
        return Err(("run-timeout".into(), "program timed out".into(), true));
    }
    let ending = classify(&rr);
    let got_out = rr.stdout_str();
    let status_ok = match (&ending, exp.kind) {
        (Ending::Exit(c), "exit") => *c == exp.status,
        (Ending::Trap(c, m), "trap") => *c == exp.status && Some(m) == exp.message.as_ref(),
        (Ending::Fatal(m), "fatal") => Some(m.as_str()) == exp.message.as_ref().map(|x| format!("fatal error: {x}")).as_deref(),
        _ => false,
    };
    if !status_ok {
        return Err((
            format!("ending:{}", backend.name()),
            format!("{} generator: program ended with {:?}, reference semantics say {} status {} {:?}\nstderr: {}", backend.name(), ending, exp.kind, exp.status, exp.message, truncate_str(&rr.stderr_str(), 600)),
            false,
        ));
    }
    if got_out != exp.stdout {
        let a: Vec<&str> = got_out.lines().collect();
        let b: Vec<&str> = exp.stdout.lines().collect();
        let i = a.iter().zip(b.iter()).position(|(x, y)| x != y).unwrap_or(a.len().min(b.len()));
        return Err((
            format!("stdout:{}", backend.name()),
            format!("{} generator: output differs from the reference semantics at line {}: program printed {:?}, expected {:?} ({} vs {} lines)", backend.name(), i + 1, a.get(i), b.get(i), a.len(), b.len()),
            false,
        ));
    }
    Ok(())
}

impl Prop for Semantics {
    type Case = ProgCase;
    fn name(&self) -> &str {
        "semantics"
    }
    fn generate(&self, c: &mut Choices) -> ProgCase {
        make_case(c, self.profile)
    }
    fn eval(&self, case: &ProgCase) -> Outcome {
        let h = hash64(&case.source);
        let Some(exp) = &case.expected else {
            return Outcome::pass(h, false).class("skipped:reference-step-limit");
        };
        let scratch = Scratch::new("c01");
        let src = scratch.file("prog.dora");
        std::fs::write(&src, &case.source).unwrap();
        for b in Backend::BOTH {
            if let Err((key, msg, inconclusive)) = check_backend(&self.tools, &scratch, &src, b, exp) {
                if inconclusive {
                    return Outcome { inconclusive: Some(format!("{key}: {msg}")), hash: h, ..Default::default() };
                }
                return Outcome::fail(h, key, msg);
            }
        }
        // non-trivial: printed >=1 run-time value and executed >=2 feature classes
        let executed = |k: &str| case.stats.iter().any(|(n, v)| n == k && *v > 0);
        let classes = [
            executed("closure-call"),
            executed("trait-dispatch"),
            executed("generic-call"),
            executed("match"),
            executed("mutating-method"),
            executed("array-store") || executed("vec-push"),
            executed("field-store") || executed("global-store"),
            executed("trapping-op"),
            executed("compound-assign"),
        ];
        let n = classes.iter().filter(|b| **b).count();
        let mut o = Outcome::pass(h, !exp.stdout.is_empty() && n >= 2).class(format!("ending:{}", exp.kind));
        for (k, v) in &case.stats {
            if *v > 0 {
                o = o.class(format!("executed:{k}"));
            }
        }
        if exp.kind == "trap" {
            o = o.class(format!("trap:{}", exp.status));
        }
        o
    }
    fn render(&self, case: &ProgCase) -> Value {
        json!({"source": case.source, "expected": expected_to_json(&case.expected), "features": case.features})
    }
    fn from_rendered(&self, v: &Value) -> Option<ProgCase> {
        Some(ProgCase { source: v["source"].as_str()?.to_string(), expected: expected_from_json(&v["expected"]), stats: vec![], features: vec![] })
    }
}

pub fn main(mode: Mode) -> i32 {
    let p = Semantics { tools: Tools::release(), profile: pgen::Profile::Core };
    match mode {
        Mode::Worker(_) => 2,
        Mode::Minimize(_, doc) => {
            let mut ctx = Ctx::new("C01", "quick");
            ctx.minimize_stored(&p, &doc, 400)
        }
        Mode::Replay(_, doc) => {
            let mut ctx = Ctx::new("C01", "quick");
            ctx.replay(&p, &doc)
        }
        Mode::Run(tier) => {
            let mut ctx = Ctx::new("C01", &tier);
            if !p.tools.has_boots() {
                println!("INCONCLUSIVE property=C01 the optimizing compiler could not be bootstrapped from this tree: {}", truncate_str(&p.tools.boots_failure().unwrap_or_default(), 500));
                return 2;
            }
            ctx.rule = "cases: proptest choice sequences decoded by the typed program generator (well-typed, terminating by construction: scalars, tuples, structs with mutating methods, classes, payload enums, Array/Vec/Option, lambdas mutating captures, generic functions with/without trait bounds, a generic class, traits with default methods, trait objects, match/if/while/for/break/continue/return, globals, templates, compound assignment, side-effecting trace calls in operand positions); oracle: stdout + exit status/trap kind + first stderr line of the executable built by EACH code generator must equal the result of an independent reference interpreter written from the language rules. non-trivial = program that printed >=1 run-time value and EXECUTED >=2 of {closure call, trait dispatch, generic call, match, mutating method, array/vec mutation, non-local store, trapping op, compound assignment}; distinct by source hash".into();
            ctx.assumptions = vec!["reference interpreter (harness/src/progen/interp.rs) encodes the language rules; float printing uses Rust's Display like the runtime".into()];
            ctx.run_regressions(&p);
            let n = ctx.n(300, 6000);
            ctx.run_search(&p, n, 2500, 60);
            ctx.require_class("semantics/ending:trap");
            ctx.require_class("semantics/executed:closure-call");
            ctx.require_class("semantics/executed:trait-dispatch");
            ctx.finish()
        }
    }
}
