//! C02 — both code generators agree and every run ends in a defined way.

use crate::c01::{compile_failure_signature, strip_warnings};
use crate::corpus::{self, CorpusProgram};
use crate::runner::*;
use crate::vcore::*;
use serde_json::{Value, json};
use std::time::Duration;

#[derive(Clone, Debug)]
pub struct DiffCase {
    pub label: String,
    pub source: String,
    pub compile_args: Vec<String>,
    pub runtime_args: String,
    pub args: Vec<String>,
    pub expect_status: Option<i32>,
    pub expect_stdout: Option<String>,
    /// outcome may depend on interleaving / clock: only "defined ending" is required, not agreement
    pub unstable: bool,
    pub nontrivial_hint: bool,
    /// a directory the program must run in (corpus programs that read files)
    pub cwd: Option<String>,
}

pub struct Differential {
    pub tools: Tools,
    pub sub: &'static str,
    pub genf: fn(&mut Choices) -> DiffCase,
}

pub struct RunInfo {
    pub ending: Ending,
    pub stdout: String,
    pub stderr_first: String,
}

pub fn build_and_run(tools: &Tools, scratch: &Scratch, src: &std::path::Path, backend: Backend, case: &DiffCase) -> Result<RunInfo, Outcome> {
    let h = hash64(&case.source);
    let exe = scratch.file(&format!("prog-{}", backend.name()));
    let opts = CompileOpts { gc: None, extra: case.compile_args.clone() };
    let cr = compile(tools, src, &exe, backend, &opts, Duration::from_secs(180));
    if cr.timed_out {
        return Err(Outcome { inconclusive: Some("compile timed out".into()), hash: h, ..Default::default() });
    }
    if !cr.ok() {
        let err = cr.stderr_str();
        return Err(Outcome::fail(h, format!("compile-failed:{}:{}", backend.name(), compile_failure_signature(&err)), format!("{} generator: dora compile failed (status {:?}, signal {:?})\n{}", backend.name(), cr.status, cr.signal, truncate_str(&strip_warnings(&err), 2500))));
    }
    let mut cmd = std::process::Command::new(&exe);
    cmd.args(&case.args);
    if case.runtime_args.is_empty() {
        cmd.env_remove("DORA_FLAGS");
    } else {
        cmd.env("DORA_FLAGS", &case.runtime_args);
    }
    cmd.current_dir(case.cwd.as_deref().map(std::path::Path::new).unwrap_or(&scratch.path));
    let rr = run_cmd(cmd, Duration::from_secs(60));
    let ending = classify(&rr);
    let stderr_first = rr.stderr_str().lines().next().unwrap_or("").to_string();
    Ok(RunInfo { ending, stdout: rr.stdout_str(), stderr_first })
}

pub fn eval_diff(tools: &Tools, case: &DiffCase) -> Outcome {
    let h = hash64(&(&case.source, &case.compile_args, &case.runtime_args));
    let scratch = Scratch::new("c02");
    let src = scratch.file("prog.dora");
    std::fs::write(&src, &case.source).unwrap();
    if case.source.contains("test/rt/io/") {
        // corpus programs that touch files get a private copy of that directory (never run inside /repo)
        let d = scratch.path.join("test/rt");
        let _ = std::fs::create_dir_all(&d);
        let _ = std::process::Command::new("cp").arg("-r").arg("/repo/test/rt/io").arg(&d).status();
    }
    let mut runs = vec![];
    for b in Backend::BOTH {
        match build_and_run(tools, &scratch, &src, b, case) {
            Ok(r) => runs.push((b, r)),
            Err(o) => {
                // a program neither generator accepts (front-end rejection) is outside the quantifier
                if let Some(f) = &o.fail {
                    if f.key.contains(":error") && !f.key.contains("panic") && b == Backend::Cannon {
                        return Outcome::pass(h, false).class("rejected-by-front-end(skipped)");
                    }
                }
                return o;
            }
        }
    }
    for (b, r) in &runs {
        if matches!(r.ending, Ending::Timeout) {
            return Outcome { inconclusive: Some(format!("{} executable timed out", b.name())), hash: h, ..Default::default() };
        }
        if !ending_defined(&r.ending) {
            let kind = match &r.ending {
                Ending::Signal(s) => format!("signal-{s}"),
                Ending::RuntimePanic(m) => format!("runtime-panic:{}", normalise_msg(m.split('|').nth(1).unwrap_or(m))),
                Ending::Unexplained(c, _) => format!("unexplained-status-{c}"),
                _ => "other".into(),
            };
            return Outcome::fail(h, format!("undefined-ending:{}:{}", b.name(), kind), format!("{} generator: the run ended with {:?} — not a return from main, an explicit exit or a documented trap\nstdout tail: {:?}", b.name(), r.ending, r.stdout.lines().rev().take(3).collect::<Vec<_>>()));
        }
    }
    let (a, b) = (&runs[0].1, &runs[1].1);
    if !case.unstable {
        if a.ending != b.ending || a.stdout != b.stdout {
            let la: Vec<&str> = a.stdout.lines().collect();
            let lb: Vec<&str> = b.stdout.lines().collect();
            let i = la.iter().zip(lb.iter()).position(|(x, y)| x != y).unwrap_or(la.len().min(lb.len()));
            return Outcome::fail(
                h,
                if a.ending != b.ending { "generators-disagree:ending" } else { "generators-disagree:stdout" },
                format!("baseline: {:?}, optimizing: {:?}; first differing output line {}: baseline {:?} vs optimizing {:?}", a.ending, b.ending, i + 1, la.get(i), lb.get(i)),
            );
        }
        if let Some(st) = case.expect_status {
            let got = match &a.ending {
                Ending::Exit(c) => *c,
                Ending::Trap(c, _) => *c,
                Ending::Fatal(_) => 1,
                _ => -99,
            };
            let ok = if st == -1 { got != 0 } else { got == st };
            if !ok {
                return Outcome::fail(h, "corpus-expectation:status", format!("the repository expects status {st} (directive //= error), both generators gave {:?}", a.ending));
            }
        } else if case.expect_stdout.is_some() || case.label.starts_with("corpus:") {
            if let Ending::Exit(0) = a.ending {
            } else if case.label.starts_with("corpus:") {
                return Outcome::fail(h, "corpus-expectation:status", format!("the repository expects success, both generators gave {:?}", a.ending));
            }
        }
        if let Some(exp) = &case.expect_stdout {
            if &a.stdout != exp {
                return Outcome::fail(h, "corpus-expectation:stdout", "output differs from the repository's .stdout file".to_string());
            }
        }
    }
    let kind = match &a.ending {
        Ending::Exit(0) => "exit0".to_string(),
        Ending::Exit(_) => "exit-nonzero".to_string(),
        Ending::Trap(c, _) => format!("trap-{c}"),
        Ending::Fatal(_) => "fatal".to_string(),
        _ => "other".into(),
    };
    Outcome::pass(h, case.nontrivial_hint).class(format!("ending:{kind}")).class_if(case.unstable, "defined-ending-only(unstable)")
}

impl Prop for Differential {
    type Case = DiffCase;
    fn name(&self) -> &str {
        self.sub
    }
    fn generate(&self, c: &mut Choices) -> DiffCase {
        (self.genf)(c)
    }
    fn eval(&self, case: &DiffCase) -> Outcome {
        let mut o = eval_diff(&self.tools, case);
        let fam = case.label.split(':').take(2).collect::<Vec<_>>().join(":");
        // failure signatures name the construct: template + class of the length/index argument
        if let Some(f) = &mut o.fail {
            let mut tag = fam.clone();
            for part in case.label.split(':').nth(2).unwrap_or("").split(',') {
                if let Some((k, v)) = part.split_once('=') {
                    if k == "L" || k == "I" {
                        let v = v.trim_matches(|c| c == '(' || c == ')');
                        let class = if v.starts_with('-') { "negative" } else if v.len() >= 10 { "huge" } else { "small" };
                        tag.push_str(&format!(":{k}={class}"));
                    }
                }
            }
            if case.label.starts_with("hostile:") || case.label.starts_with("corpus:") {
                f.key = format!("{}|{}", if case.label.starts_with("corpus:") { case.label.clone() } else { tag }, f.key);
            }
        }
        o.class(format!("family:{fam}"))
    }
    fn render(&self, case: &DiffCase) -> Value {
        json!({"label": case.label, "source": case.source, "compile_args": case.compile_args, "runtime_args": case.runtime_args, "args": case.args,
               "expect_status": case.expect_status, "expect_stdout": case.expect_stdout, "unstable": case.unstable, "cwd": case.cwd})
    }
    fn from_rendered(&self, v: &Value) -> Option<DiffCase> {
        let sv = |k: &str| v[k].as_array().map(|a| a.iter().filter_map(|x| x.as_str().map(String::from)).collect()).unwrap_or_default();
        Some(DiffCase {
            label: v["label"].as_str().unwrap_or("replay").into(),
            source: v["source"].as_str()?.to_string(),
            compile_args: sv("compile_args"),
            runtime_args: v["runtime_args"].as_str().unwrap_or("").into(),
            args: sv("args"),
            expect_status: v["expect_status"].as_i64().map(|x| x as i32),
            expect_stdout: v["expect_stdout"].as_str().map(String::from),
            unstable: v["unstable"].as_bool().unwrap_or(false),
            nontrivial_hint: true,
            cwd: v["cwd"].as_str().map(String::from),
        })
    }
}

// ---------------------------------------------------------------------------
// hostile-argument programs

const LENS: &[&str] = &["0", "1", "3", "-1", "-2", "2147483647", "2147483648", "4294967296", "2305843009213693953", "9223372036854775807", "(-9223372036854775807 - 1)", "1152921504606846975", "1000000", "16777216"];
const IDXS: &[&str] = &["0", "1", "2", "3", "-1", "4", "2147483648", "9223372036854775807", "(-9223372036854775807 - 1)", "-3", "100"];
const SHIFTS: &[&str] = &["0i32", "1i32", "31i32", "32i32", "63i32", "64i32", "-1i32", "65i32", "2147483647i32", "(-2147483647i32 - 1i32)"];
const XS: &[&str] = &["0", "1", "-1", "255", "256", "65536", "2147483647", "2147483648", "-2147483648", "-2147483649", "4294967295", "9223372036854775807", "(-9223372036854775807 - 1)", "1114111", "1114112", "55296", "57343"];
const X32: &[&str] = &["0i32", "1i32", "-1i32", "127i32", "128i32", "255i32", "256i32", "65536i32", "2147483647i32", "(-2147483647i32 - 1i32)", "1114112i32", "55296i32"];
const FS: &[&str] = &["0.0", "-0.0", "1.5", "-1.5", "2147483647.0", "2147483648.0", "-2147483649.0", "9223372036854775807.0", "9223372036854775808.0", "-9223372036854775809.0", "1.0e300", "-1.0e300", "(0.0/0.0)", "(1.0/0.0)", "(-1.0/0.0)", "4294967296.5"];
const ELEMS: &[(&str, &str)] = &[("Int64", "7"), ("UInt8", "7u8"), ("Int32", "7i32"), ("Bool", "true"), ("Float64", "1.5"), ("(Int64, Int64)", "(1, 2)"), ("(UInt8, Int64, Bool)", "(1u8, 2, true)"), ("Char", "'x'"), ("Float32", "1.5f32")];
const ZERO_ELEMS: &[&str] = &["Int64", "UInt8", "Int32", "Bool", "Float64", "Char", "Float32"];

/// (name, template). Placeholders: {L} length, {I} index, {K} shift, {X} Int64, {Y} Int64, {W} Int32, {F} float, {T}/{V} element type and value, {Z} zero-able element type
const TEMPLATES: &[(&str, &str)] = &[
    ("array-zero", "let a = Array[{Z}]::zero({L}); println(\"size=${a.size()}\"); if a.size() > 0 { let x = a(a.size() - 1); let y = a(0); println(\"ok\"); }"),
    ("array-fill", "let a = Array[{T}]::fill({L}, {V}); println(\"size=${a.size()}\"); if a.size() > 0 { a(a.size() - 1) = {V}; a(0) = {V}; println(\"ok\"); }"),
    ("array-new-default", "let a = Array[Int64]::new_default({L}); println(\"size=${a.size()}\"); if a.size() > 0 { println(\"${a(a.size() - 1)}\"); }"),
    ("array-fill-with", "let a = Array[Int64]::fill_with({L}, |i: Int64|: Int64 { i * 2 }); println(\"size=${a.size()}\"); if a.size() > 1 { println(\"${a(1)}\"); }"),
    ("array-get", "let a = Array[{T}]::new({V}, {V}, {V}); let x = a({I}); println(\"got\");"),
    ("array-set", "let a = Array[{T}]::new({V}, {V}, {V}); a({I}) = {V}; println(\"set ${a.size()}\");"),
    ("array-copy", "let a = Array[Int64]::new(1, 2, 3, 4); let b = Array[Int64]::zero(4); Array[Int64]::copy(a, {I}, b, {I}, {L}); println(\"${b(0)} ${b(3)}\");"),
    ("array-compare", "let a = Array[Int64]::new(1, 2, 3, 4); let b = Array[Int64]::new(1, 2, 3, 4); println(\"${Array[Int64]::compare(a, {I}, b, {I}, {L})}\");"),
    ("vec-index", "let v = Vec[Int64]::new(1, 2, 3); println(\"${v({I})}\");"),
    ("vec-set", "let v = Vec[Int64]::new(1, 2, 3); v({I}) = 5; println(\"${v.size()}\");"),
    ("vec-insert-at", "let v = Vec[{T}]::new({V}, {V}); v.insert_at({I}, {V}); println(\"${v.size()}\");"),
    ("vec-remove-at", "let v = Vec[{T}]::new({V}, {V}, {V}); v.remove_at({I}); println(\"${v.size()}\");"),
    ("vec-reserve", "let v = Vec[{T}]::new({V}); v.reserve({L}); println(\"${v.size()} ${v.capacity() >= 1}\"); v.push({V}); println(\"${v.size()}\");"),
    ("vec-with-capacity", "let v = Vec[{T}]::new_with_capacity({L}); v.push({V}); println(\"${v.size()}\");"),
    ("vec-append-part", "let v = Vec[Int64]::new(1); let a = Array[Int64]::new(1, 2, 3, 4); v.append_part(a, {I}, {L}); println(\"${v.size()}\");"),
    ("vec-pop-empty", "let v = Vec[Int64]::new(); println(\"${v.pop().is_none()} ${v.first().is_none()} ${v.last().is_none()}\"); v.trim_to_len(); v.clear(); println(\"${v.size()}\");"),
    ("string-get-byte", "let s = \"hello\"; println(\"${s.get_byte({I})}\");"),
    ("string-from-bytes-part", "let b = Array[UInt8]::new(104u8, 105u8, 33u8, 200u8); println(\"${String::from_bytes_part(b, {I}, {L}).is_some()}\");"),
    ("string-from-string-part", "let s = \"héllo wörld\"; println(\"${String::from_string_part(s, {I}, {L}).is_some()}\");"),
    ("stringbuffer-reserve", "let sb = std::StringBuffer::new(); sb.append(\"ab\"); sb.reserve({L}); sb.append(\"cd\"); println(sb.to_string());"),
    ("bitset", "let b = std::BitSet::new({L}); println(\"${b.size()}\"); b.insert({I}); println(\"${b.contains({I})}\"); b.remove({I}); println(\"${b.contains({I})}\");"),
    ("bitvec", "let b = std::BitVec::new(); println(\"${b.insert({I})}\"); println(\"${b.contains({I})} ${b.contains({X})}\"); println(\"${b.remove({I})}\");"),
    ("bitvec-capacity", "let b = std::BitVec::new(); b.ensure_capacity({L}); println(\"${b.capacity() >= 0}\");"),
    ("queue", "let q = std::Queue[Int64]::new(); q.enqueue({X}); println(\"${q.dequeue()}\"); println(\"${q.is_empty()}\"); println(\"${q.dequeue()}\");"),
    ("shift64", "let x: Int64 = {X}; println(\"${x << {K}}\"); println(\"${x >> {K}}\"); println(\"${x >>> {K}}\");"),
    ("shift32", "let x: Int32 = {W}; println(\"${x << {K}}\"); println(\"${x >> {K}}\"); println(\"${x >>> {K}}\");"),
    ("rotate", "let x: Int64 = {X}; let y: Int32 = {W}; println(\"${x.rotate_left({K})} ${x.rotate_right({K})} ${y.rotate_left({K})} ${y.rotate_right({K})}\");"),
    ("float-to-int", "let f: Float64 = {F}; println(\"${f.to_int64()}\"); println(\"${f.to_int32()}\"); let g: Float32 = f.to_float32(); println(\"${g.to_int64()} ${g.to_int32()}\");"),
    ("int-to-char", "let x: Int64 = {X}; println(\"${x.to_char().is_some()}\"); let y: Int32 = {W}; println(\"${y.to_char().is_some()}\");"),
    ("int-narrow", "let x: Int64 = {X}; println(\"${x.to_int32()} ${x.to_uint8()} ${x.to_float64()} ${x.to_float32()}\"); let y: Int32 = {W}; println(\"${y.to_uint8()} ${y.to_int64()} ${y.to_float32()}\");"),
    ("encode-utf8", "let b = Array[UInt8]::zero(4); 'é'.encode_utf8(b, {I}); println(\"${b(0)}\");"),
    ("div-mod64", "let x: Int64 = {X}; let y: Int64 = {Y}; println(\"${x / y}\"); println(\"${x % y}\");"),
    ("mul-add64", "let x: Int64 = {X}; let y: Int64 = {Y}; println(\"${x.wrapping_mul(y)} ${x.wrapping_add(y)} ${x.wrapping_sub(y)}\"); println(\"${x * y}\"); println(\"${x + y}\"); println(\"${x - y}\");"),
    ("neg-abs", "let x: Int64 = {X}; println(\"${x.wrapping_neg()}\"); println(\"${-x}\"); println(\"${x.abs()}\"); let y: Int32 = {W}; println(\"${-y}\"); println(\"${y.abs()}\");"),
    ("div-mod32", "let x: Int32 = {W}; let y: Int32 = {W2}; println(\"${x / y}\"); println(\"${x % y}\"); println(\"${x * y}\");"),
    ("overflowing", "let x: Int64 = {X}; let y: Int64 = {Y}; let a = x.overflowing_add(y); let m = x.overflowing_mul(y); let s = x.overflowing_sub(y); println(\"${a.0} ${a.1} ${m.0} ${m.1} ${s.0} ${s.1}\"); if y != 0 { let d = x.overflowing_div(y); let r = x.overflowing_mod(y); println(\"${d.0} ${d.1} ${r.0} ${r.1}\"); }"),
    ("overflowing32", "let x: Int32 = {W}; let y: Int32 = {W2}; let a = x.overflowing_add(y); let m = x.overflowing_mul(y); let s = x.overflowing_sub(y); println(\"${a.0} ${a.1} ${m.0} ${m.1} ${s.0} ${s.1}\"); if y != 0i32 { let d = x.overflowing_div(y); let r = x.overflowing_mod(y); println(\"${d.0} ${d.1} ${r.0} ${r.1}\"); }"),
    ("div-min", "let x: Int32 = (-2147483647i32 - 1i32); let y: Int32 = {W}; let p: Int64 = (-9223372036854775807 - 1); let q: Int64 = {X}; println(\"pairs\"); if y != 0i32 && y != -1i32 { println(\"${x / y} ${x % y}\"); } if q != 0 && q != -1 { println(\"${p / q} ${p % q}\"); } println(\"${x.wrapping_neg()} ${p.wrapping_neg()}\"); let m1: Int32 = {W2}; if m1 == -1i32 { println(\"${x % m1}\"); println(\"${x / m1}\"); }"),
    ("bits", "let x: Int64 = {X}; println(\"${x.count_zero_bits()} ${x.count_one_bits()} ${x.count_zero_bits_leading()} ${x.count_one_bits_leading()} ${x.count_zero_bits_trailing()} ${x.count_one_bits_trailing()}\"); let y: Int32 = {W}; println(\"${y.count_zero_bits_leading()} ${y.count_one_bits_trailing()}\");"),
    ("float-cmp", "let a: Float64 = {F}; let b: Float64 = {F2}; println(\"${a < b} ${a <= b} ${a > b} ${a >= b} ${a == b} ${a != b}\"); let o = a.cmp(b); println(\"${o == std::Ordering::Less} ${o == std::Ordering::Equal} ${o == std::Ordering::Greater}\"); let c: Float32 = a.to_float32(); let d: Float32 = b.to_float32(); let p = c.cmp(d); println(\"${p == std::Ordering::Less} ${p == std::Ordering::Equal} ${p == std::Ordering::Greater} ${c < d}\");"),
    ("int-cmp", "let a: Int64 = {X}; let b: Int64 = {Y}; let o = a.cmp(b); println(\"${o == std::Ordering::Less} ${o == std::Ordering::Greater}\"); let c: UInt8 = a.to_uint8(); let d: UInt8 = b.to_uint8(); let p = c.cmp(d); println(\"${p == std::Ordering::Less} ${p == std::Ordering::Greater} ${c < d} ${c >= d}\"); let e: Int32 = {W}; let f: Int32 = {W2}; let q = e.cmp(f); println(\"${q == std::Ordering::Less} ${q == std::Ordering::Greater}\");"),
    ("float-arith", "let a: Float64 = {F}; let b: Float64 = {F2}; println(\"${a + b} ${a - b} ${a * b} ${a / b} ${-a} ${a.abs()} ${a.sqrt()}\"); println(\"${a.is_nan()} ${a.is_infinite()}\");"),
    ("hashmap", "let m = std::HashMap[Int64, Int64]::new(); m.insert({X}, 1); m.insert({Y}, 2); println(\"${m.size()} ${m.contains({X})} ${m.get({Y}).is_some()} ${m.remove({X}).is_some()} ${m.size()}\");"),
    ("string-parse", "println(\"${\"{XR}\".to_int64().is_some()} ${\"{XR}\".to_int32().is_some()}\");"),
    ("sort", "let a = Array[Int64]::new({X}, {Y}, 0, {X}); Array[Int64]::sort_stable(a); println(\"${a(0) <= a(1) && a(1) <= a(2) && a(2) <= a(3)}\"); let v = Vec[Float64]::new({F}, {F2}, 1.0); v.sort(); println(\"${v.size()}\");"),
];

pub fn gen_hostile(c: &mut Choices) -> DiffCase {
    let (name, tmpl) = TEMPLATES[c.below(TEMPLATES.len())];
    // templates that cannot trap are instantiated eight times per program (each in its own scope) so that
    // pairs of boundary values (NaN x ordered, MIN x -1, …) are covered densely; the others once, because the
    // first trap ends the program
    const NEVER_TRAPS: &[&str] = &["float-cmp", "float-arith", "int-cmp", "float-to-int", "int-narrow", "bits", "overflowing", "overflowing32", "rotate", "sort", "string-parse"];
    let copies = if NEVER_TRAPS.contains(&name) { 8 } else { 1 };
    let mut body = String::new();
    let (t, v) = ELEMS[c.below(ELEMS.len())];
    let mut args = vec![];
    for copy in 0..copies {
        let mut one = tmpl.to_string();
        // one value per placeholder kind per instance ({I} appearing several times gets the same value)
        for (ph, pool) in [("{L}", LENS), ("{I}", IDXS), ("{K}", SHIFTS), ("{X}", XS), ("{Y}", XS), ("{W2}", X32), ("{W}", X32), ("{F2}", FS), ("{F}", FS)] {
            if one.contains(ph) {
                let val = pool[c.below(pool.len())];
                one = one.replace(ph, val);
                if copy == 0 {
                    args.push(format!("{}={}", ph.trim_matches(|ch| ch == '{' || ch == '}'), val));
                }
            }
        }
        if copies > 1 {
            body.push_str(&format!("{{ {one} }}; "));
        } else {
            body = one;
        }
    }
    if body.contains("{XR}") {
        let val = XS[c.below(XS.len())].trim_matches(|ch| ch == '(' || ch == ')').replace(" - 1", "");
        body = body.replace("{XR}", &val);
    }
    body = body.replace("{T}", t).replace("{V}", v);
    if body.contains("{Z}") {
        body = body.replace("{Z}", ZERO_ELEMS[c.below(ZERO_ELEMS.len())]);
    }
    let source = format!("use std::string::Stringable;\nuse std::traits::Comparable;\nfn main() {{\n    println(\"begin\");\n    {}\n    println(\"end\");\n}}\n", body.replace("; ", ";\n    "));
    DiffCase {
        label: format!("hostile:{name}:{}", args.join(",")),
        source,
        compile_args: vec![],
        runtime_args: String::new(),
        args: vec![],
        expect_status: None,
        expect_stdout: None,
        unstable: false,
        nontrivial_hint: true,
        cwd: None,
    }
}

// ---------------------------------------------------------------------------
// corpus and type-preserving mutants

pub fn corpus_case(p: &CorpusProgram) -> Option<DiffCase> {
    if p.ignore {
        return None;
    }
    let source = std::fs::read_to_string(&p.source).ok()?;
    Some(DiffCase {
        label: format!("corpus:{}", p.test_file.strip_prefix("/repo").unwrap_or(&p.test_file).display()),
        source,
        compile_args: p.compile_args.clone(),
        runtime_args: p.runtime_args.clone(),
        args: p.args.clone(),
        expect_status: p.expect_status,
        expect_stdout: p.expect_stdout.clone(),
        unstable: p.unstable.is_some(),
        nontrivial_hint: true,
        cwd: None,
    })
}

pub fn corpus_cases(limit_unstable: bool) -> (Vec<DiffCase>, usize) {
    let all = corpus::runtime_corpus();
    let mut skipped = 0;
    let mut out = vec![];
    for p in &all {
        if limit_unstable && p.unstable.is_some() {
            skipped += 1;
            continue;
        }
        match corpus_case(p) {
            Some(c) => out.push(c),
            None => skipped += 1,
        }
    }
    (out, skipped)
}

fn mutate_source(c: &mut Choices, src: &str) -> Option<(String, &'static str)> {
    // token-level, type-preserving edits
    let lx = dora_parser::lex(src);
    let n = lx.starts.len();
    let tok = |i: usize| -> &str {
        let s = lx.starts[i] as usize;
        let e = if i + 1 < n { lx.starts[i + 1] as usize } else { src.len() };
        &src[s..e]
    };
    let mut cands: Vec<(usize, String, &'static str)> = vec![];
    for i in 0..n {
        let t = tok(i);
        let kind = format!("{:?}", lx.tokens[i]);
        if kind == "INT_LITERAL" {
            let (digits, suffix) = match t.find(|ch: char| ch == 'i' || ch == 'u') {
                Some(p) if !t.starts_with("0x") && !t.starts_with("0b") => (&t[..p], &t[p..]),
                _ => (t, ""),
            };
            if digits.chars().all(|ch| ch.is_ascii_digit() || ch == '_') {
                let pool: &[&str] = match suffix {
                    "i32" => &["0", "1", "2147483647", "46341", "65536", "31", "32"],
                    "u8" => &["0", "1", "255", "128", "127"],
                    "" | "i64" => &["0", "1", "9223372036854775807", "2147483648", "4294967296", "3037000500", "63", "64"],
                    _ => &[],
                };
                if !pool.is_empty() {
                    cands.push((i, format!("{}{}", pool[c.below(pool.len())], suffix), "int-literal-boundary"));
                }
            }
        }
        let swap = match t {
            "<" => Some("<="),
            "<=" => Some("<"),
            ">" => Some(">="),
            ">=" => Some(">"),
            "==" => Some("!="),
            "!=" => Some("=="),
            "+" => Some("-"),
            "-" if i > 0 && !matches!(tok(i - 1).trim(), "(" | "," | "=" | "") => Some("+"),
            "*" => Some("+"),
            "true" => Some("false"),
            "false" => Some("true"),
            "&&" => Some("||"),
            "||" => Some("&&"),
            _ => None,
        };
        if let Some(s) = swap {
            cands.push((i, s.to_string(), "operator-swap"));
        }
    }
    if cands.is_empty() {
        return None;
    }
    let (i, repl, kind) = cands.swap_remove(c.below(cands.len()));
    let s = lx.starts[i] as usize;
    let e = if i + 1 < n { lx.starts[i + 1] as usize } else { src.len() };
    let mut out = src.to_string();
    out.replace_range(s..e, &repl);
    Some((out, kind))
}

pub fn gen_mutant(c: &mut Choices) -> DiffCase {
    static CORPUS: std::sync::OnceLock<Vec<DiffCase>> = std::sync::OnceLock::new();
    let all = CORPUS.get_or_init(|| corpus_cases(true).0.into_iter().filter(|c| c.source.len() < 6000 && c.compile_args.is_empty()).collect());
    let base = &all[c.below(all.len())];
    let mut case = base.clone();
    let mut kinds = vec![];
    let mut src = base.source.clone();
    for _ in 0..(1 + c.below(2)) {
        if let Some((s, k)) = mutate_source(c, &src) {
            src = s;
            kinds.push(k);
        }
    }
    case.label = format!("mutant:{}:{}", kinds.join("+"), base.label);
    case.source = src;
    // a mutant has no project expectation any more, and may loop: only agreement + defined ending
    case.expect_status = None;
    case.expect_stdout = None;
    case
}

pub fn gen_wide(c: &mut Choices) -> DiffCase {
    let p = crate::progen::pgen::generate_wide(c);
    let source = crate::progen::ir::print_program(&p);
    DiffCase { label: "generated:wide".into(), source, compile_args: vec![], runtime_args: String::new(), args: vec![], expect_status: None, expect_stdout: None, unstable: false, nontrivial_hint: true, cwd: None }
}

pub fn main(mode: Mode) -> i32 {
    let tools = Tools::release();
    let hostile = Differential { tools: tools.clone(), sub: "hostile-args", genf: gen_hostile };
    let mutants = Differential { tools: tools.clone(), sub: "corpus-mutants", genf: gen_mutant };
    let wide = Differential { tools: tools.clone(), sub: "generated-wide", genf: gen_wide };
    let corpus_p = Differential { tools: tools.clone(), sub: "corpus", genf: gen_hostile };
    match mode {
        Mode::Worker(_) => 2,
        Mode::Minimize(_, doc) => {
            let mut ctx = Ctx::new("C02", "quick");
            match doc["sub"].as_str() {
                Some("generated-wide") => ctx.minimize_stored(&wide, &doc, 300),
                Some("corpus-mutants") => ctx.minimize_stored(&mutants, &doc, 300),
                _ => ctx.minimize_stored(&hostile, &doc, 300),
            }
        }
        Mode::Replay(_, doc) => {
            let mut ctx = Ctx::new("C02", "quick");
            ctx.replay(&hostile, &doc)
        }
        Mode::Run(tier) => {
            let mut ctx = Ctx::new("C02", &tier);
            if !tools.has_boots() {
                println!("INCONCLUSIVE property=C02 the optimizing compiler could not be bootstrapped from this tree: {}", truncate_str(&tools.boots_failure().unwrap_or_default(), 500));
                return 2;
            }
            ctx.rule = "cases: (1) hostile-argument programs: one stdlib entry point / intrinsic per program (Array zero/fill/fill_with/new_default/get/set/copy/compare, Vec index/insert_at/remove_at/reserve/new_with_capacity/append_part/pop, String get_byte/from_bytes_part/from_string_part, StringBuffer reserve, BitSet, BitVec, Queue, shifts, rotates, float->int, int->char, narrowing, encode_utf8, div/mod/mul/neg/abs, overflowing_*, bit counts, float and int cmp, float arithmetic, HashMap, parse, sort) with arguments drawn from boundary pools (negative, 2^31, 2^32, 2^61+1, Int64 min/max, NaN/inf, surrogate code points); (2) every runnable program of test/rt run the way the repository runs it (//= directives); (3) type-preserving mutants of those (integer literal -> boundary of the same type, comparison/arithmetic/boolean operator swap); (4) generated programs of the typed generator in 'wide' mode (constructs whose result the language does not pin down are allowed). oracle: both executables (baseline, optimizing) give identical stdout and ending, each ending is return/exit/fatal_error/documented trap with its message (never a signal, a runtime-internal panic or an unexplained status), and for unmutated corpus programs the repository's own expectation holds. non-trivial = both executables ran to completion and the program exercised a boundary-argument call (hostile), or is a corpus program / mutant / generated program that was accepted by the front end; distinct by (source, options) hash".into();
            ctx.assumptions = vec!["programs whose result depends on threads, clock, file system or stack depth are compared on 'defined ending' only (class defined-ending-only)".into()];
            ctx.run_regressions(&hostile);
            ctx.run_known_reproducers(&hostile);
            let (cases, skipped) = corpus_cases(false);
            ctx.note_excluded("corpus programs with //= ignore", skipped as u64);
            // quick: every sixth corpus program (which sixth depends on the seed); thorough: all of them
            let total_corpus = cases.len();
            let cases: Vec<_> = if ctx.thorough() {
                cases
            } else {
                let step = if std::env::var("VERIF_SCALE").is_ok() { 10 } else { 6 };
                cases.into_iter().skip((ctx.seed % step as u64) as usize).step_by(step).collect()
            };
            ctx.extra.insert("corpus_programs_total".into(), json!(total_corpus));
            ctx.extra.insert("corpus_programs_run".into(), json!(cases.len()));
            ctx.run_enum(&corpus_p, cases);
            let n = ctx.n(200, 6000);
            ctx.run_search(&hostile, n, 40, 0);
            let n = ctx.n(70, 3000);
            ctx.run_search(&mutants, n, 60, 0);
            let n = ctx.n(60, 3000);
            ctx.run_search(&wide, n, 2500, 30);
            ctx.finish()
        }
    }
}
