use vh::vcore::parse_mode_from;

fn main() {
    let args: Vec<String> = std::env::args().collect();
    if args.len() < 3 {
        eprintln!("usage: vh <property> quick|thorough|--replay <file>");
        std::process::exit(2);
    }
    let id = args[1].clone();
    let mode = parse_mode_from(&args[2..]);
    let rc = match id.as_str() {
        "C16" => vh::c16::main(mode),
        "C06" => vh::c06::main(mode),
        "C20" => vh::c20::main(mode),
        "C19" => vh::c19::main(mode),
        "C17" => vh::c17::main(mode),
        "C01" => vh::c01::main(mode),
        "C02" => vh::c02::main(mode),
        "C14" => vh::c14::main(mode),
        "C13" => vh::c13::main(mode),
        "C15" => vh::c15::main(mode),
        "C05" => vh::c05::main(mode),
        "C18" => vh::c18::main(mode),
        "C10" => vh::c10::main(mode),
        "C03" => vh::c03::main(mode),
        "C11" => vh::c11::main(mode),
        "C09" => vh::c09::main(mode),
        "C12" => vh::c12::main(mode),
        _ => {
            eprintln!("unknown property {id}");
            2
        }
    };
    std::process::exit(rc);
}
