//! C14 — a trap report names what failed and where.

use crate::runner::*;
use crate::vcore::*;
use serde_json::{Value, json};
use std::time::Duration;

#[derive(Clone, Debug)]
pub struct Frame {
    /// identifier that the frame's function name must contain ("" = any, e.g. lambdas)
    pub ident: String,
    pub line: usize,
    /// thunk frame: located outside the program (std) — only its presence is checked
    pub std_thunk: bool,
}

#[derive(Clone, Debug)]
pub struct TrapCase {
    pub source: String,
    pub status: i32,
    pub message: String,
    pub frames: Vec<Frame>,
    pub stdout: String,
    pub kinds: Vec<String>,
    pub op: String,
    pub gc: Option<String>,
}

struct Lines {
    lines: Vec<String>,
}
impl Lines {
    fn push(&mut self, s: impl Into<String>) -> usize {
        self.lines.push(s.into());
        self.lines.len()
    }
}

const OPS: &[(&str, i32, &str)] = &[
    ("div0", 101, "division by 0"),
    ("mod0", 101, "division by 0"),
    ("add-overflow", 109, "overflow"),
    ("sub-overflow", 109, "overflow"),
    ("mul-overflow", 109, "overflow"),
    ("neg-overflow", 109, "overflow"),
    ("div-overflow", 109, "overflow"),
    ("shl-range", 110, "shift amount out of bounds"),
    ("sar-range", 110, "shift amount out of bounds"),
    ("array-get", 103, "array index out of bounds"),
    ("array-set", 103, "array index out of bounds"),
    ("assert", 102, "assert failed"),
    ("fatal", 1, "fatal error: boom"),
    ("add32-overflow", 109, "overflow"),
];

const KINDS: &[&str] = &["plain", "generic", "class-method", "mutating-method", "lambda", "trait-object", "small"];

pub fn gen_trap(c: &mut Choices) -> TrapCase {
    let depth = 1 + c.below(6);
    let (op, status, message) = OPS[c.below(OPS.len())];
    let mut kinds: Vec<&str> = (0..depth).map(|_| KINDS[c.below(KINDS.len())]).collect();
    // the innermost function is a plain/generic/method kind (the failing op sits in it)
    let n = kinds.len();
    if kinds[n - 1] == "lambda" || kinds[n - 1] == "trait-object" {
        kinds[n - 1] = "plain";
    }
    for i in 0..n.saturating_sub(1) {
        if kinds[i] == "lambda" && kinds[i + 1] == "lambda" {
            kinds[i + 1] = "plain";
        }
    }
    let uid = 10 + c.below(80);
    let mut l = Lines { lines: vec![] };
    l.push("use std::string::Stringable;");
    // z is the poison value handed down the chain; what it must be depends on the op
    let (zval, zty) = match op {
        "div0" | "mod0" => ("0", "Int64"),
        "add-overflow" | "mul-overflow" => ("9223372036854775807", "Int64"),
        "sub-overflow" | "neg-overflow" | "div-overflow" => ("(-9223372036854775807 - 1)", "Int64"),
        "shl-range" | "sar-range" => ("64", "Int64"),
        "array-get" | "array-set" => ("3", "Int64"),
        "assert" => ("5", "Int64"),
        "fatal" => ("1", "Int64"),
        "add32-overflow" => ("2147483647", "Int64"),
        _ => unreachable!(),
    };
    let _ = zty;
    // frames are collected innermost-last while emitting outermost-first; we emit definitions innermost first
    // names
    let name = |i: usize| format!("q{}x{}", uid, i);
    let mut frames_rev: Vec<Frame> = vec![]; // innermost first
    // innermost function body
    let inner = n - 1;
    // Each element i defines a callable reached with an expression `call_i(z)`; build from the inside out.
    // call_expr[i] = text of the expression (using variable `z`) that invokes element i
    let mut call_expr: Vec<String> = vec![String::new(); n];
    let mut pre_lines: Vec<Vec<String>> = vec![vec![]; n]; // statements the caller must place before the call
    for i in (0..n).rev() {
        let nm = name(i);
        let failing = i == inner;
        // body lines of element i: either the failing op or a call to element i+1
        let mut body: Vec<String> = vec![];
        let mut mark: usize = 0; // index in body of the interesting line
        if failing {
            body.push("let a: Int64 = 10;".into());
            // a generated number of statements that neither trap nor call: the machine-code length of the failing
            // function (and with it alignment padding and what follows its last slow path) varies from case to case
            let fillers = c.below(14);
            for j in 0..fillers {
                match (j + uid) % 3 {
                    0 => body.push(format!("let f{j}: Bool = z == {j};")),
                    1 => body.push(format!("let f{j}: Int64 = z;")),
                    _ => body.push(format!("let f{j}: Bool = z > a;")),
                }
            }
            match op {
                "div0" => body.push("let r: Int64 = a / z;".into()),
                "mod0" => body.push("let r: Int64 = a % z;".into()),
                "add-overflow" => body.push("let r: Int64 = a + z;".into()),
                "sub-overflow" => body.push("let r: Int64 = z - a;".into()),
                "mul-overflow" => body.push("let r: Int64 = a * z;".into()),
                "neg-overflow" => body.push("let r: Int64 = -z;".into()),
                "div-overflow" => body.push("let r: Int64 = z / (a - 11);".into()),
                "shl-range" => body.push("let r: Int64 = a << z.to_int32();".into()),
                "sar-range" => body.push("let r: Int64 = a >> z.to_int32();".into()),
                "array-get" => {
                    body.push("let arr = Array[Int64]::new(1, 2, 3);".into());
                    body.push("let r: Int64 = arr(z);".into());
                }
                "array-set" => {
                    body.push("let arr = Array[Int64]::new(1, 2, 3);".into());
                    body.push("arr(z) = a;".into());
                    mark = body.len() - 1;
                    body.push("let r: Int64 = arr(0);".into());
                }
                "assert" => {
                    // with and without another (checked-arithmetic) slow path in the same function
                    body.push(c.pick_str(&["assert(z < a - 6);", "assert(z < 3);", "assert(z == 0);", "assert(z > a);"]).to_string());
                    mark = body.len() - 1;
                    body.push("let r: Int64 = a;".into());
                }
                "fatal" => {
                    body.push("if z == 1 { std::fatal_error(\"boom\"); }".into());
                    mark = body.len() - 1;
                    body.push("let r: Int64 = a;".into());
                }
                "add32-overflow" => body.push("let r: Int64 = (z.to_int32() + a.to_int32()).to_int64();".into()),
                _ => unreachable!(),
            }
            if mark == 0 {
                mark = body.len() - 1;
            }
            // with or without a trailing checked addition (i.e. with or without a second slow path behind the failing one)
            body.push(c.pick_str(&["r + 1", "r", "r + 1", "a"]).to_string());
        } else {
            for p in &pre_lines[i + 1] {
                body.push(p.clone());
            }
            // the line that performs the call: `s.m(z);` for a mutating method, else the `let r = …` line
            mark = if kinds[i + 1] == "mutating-method" { body.len() - 1 } else { body.len() };
            body.push(format!("let r: Int64 = {};", call_expr[i + 1]));
            body.push("r + 1".into());
        }
        // wrap according to kind; record the absolute line of body[mark]
        let kind = kinds[i];
        let mut frame_ident = nm.clone();
        let mark_line;
        #[allow(unused_assignments)]
        let mut body0_line = 0usize;
        match kind {
            "plain" | "small" => {
                if kind == "small" && !failing {
                    // single expression body: inlinable
                    l.push(format!("fn {nm}(z: Int64): Int64 {{"));
                    body0_line = l.lines.len() + 1;
                    for p in &pre_lines[i + 1] {
                        l.push(format!("    {p}"));
                    }
                    let expr_line = l.push(format!("    {} + 1", call_expr[i + 1]));
                    mark_line = if kinds[i + 1] == "mutating-method" { expr_line - 1 } else { expr_line };
                    l.push("}");
                } else {
                    l.push(format!("fn {nm}(z: Int64): Int64 {{"));
                    let base = l.lines.len();
                    body0_line = base + 1;
                    for b in &body {
                        l.push(format!("    {b}"));
                    }
                    mark_line = base + mark + 1;
                    l.push("}");
                }
                call_expr[i] = format!("{nm}(z)");
            }
            "generic" => {
                l.push(format!("fn {nm}[T](t: T, z: Int64): Int64 {{"));
                let base = l.lines.len();
                body0_line = base + 1;
                for b in &body {
                    l.push(format!("    {b}"));
                }
                mark_line = base + mark + 1;
                l.push("}");
                call_expr[i] = format!("{nm}[Bool](true, z)");
            }
            "class-method" => {
                l.push(format!("class K{nm} {{ v: Int64 }}"));
                l.push(format!("impl K{nm} {{"));
                l.push(format!("    fn {nm}(z: Int64): Int64 {{"));
                let base = l.lines.len();
                body0_line = base + 1;
                for b in &body {
                    l.push(format!("        {b}"));
                }
                mark_line = base + mark + 1;
                l.push("    }");
                l.push("}");
                call_expr[i] = format!("K{nm}(v = 1).{nm}(z)");
            }
            "mutating-method" => {
                l.push(format!("struct S{nm} {{ v: Int64 }}"));
                l.push(format!("impl S{nm} {{"));
                l.push(format!("    mutating fn {nm}(z: Int64) {{"));
                let base = l.lines.len();
                body0_line = base + 1;
                // body computes r; store into self.v
                for b in &body[..body.len() - 1] {
                    l.push(format!("        {b}"));
                }
                l.push("        self.v = r + 1;");
                mark_line = base + mark + 1;
                l.push("    }");
                l.push("}");
                pre_lines[i] = vec![format!("let mut s{nm} = S{nm}(v = 0);"), format!("s{nm}.{nm}(z);")];
                // the *call* is the statement `s.m(z);` — the caller's frame line is that pre-line
                call_expr[i] = format!("s{nm}.v");
            }
            "trait-object" => {
                let decl = l.push(format!("trait T{nm} {{ fn {nm}(z: Int64): Int64; }}"));
                l.push(format!("class K{nm} {{ v: Int64 }}"));
                l.push(format!("impl T{nm} for K{nm} {{"));
                l.push(format!("    fn {nm}(z: Int64): Int64 {{"));
                let base = l.lines.len();
                body0_line = base + 1;
                for b in &body {
                    l.push(format!("        {b}"));
                }
                mark_line = base + mark + 1;
                l.push("    }");
                l.push("}");
                pre_lines[i] = vec![format!("let o{nm}: T{nm} = K{nm}(v = 1) as T{nm};")];
                call_expr[i] = format!("o{nm}.{nm}(z)");
                // frame of the method, then the trait-object thunk at the declaration line
                frames_rev.push(Frame { ident: nm.clone(), line: mark_line, std_thunk: false });
                frames_rev.push(Frame { ident: format!("T{nm}"), line: decl, std_thunk: false });
                frame_ident = String::new();
            }
            "lambda" => {
                // the lambda is defined in the caller: emit nothing here, the caller gets pre-lines
                let mut pl = vec![format!("let l{nm} = |z: Int64|: Int64 {{")];
                for b in &body {
                    pl.push(format!("    {b}"));
                }
                pl.push("};".into());
                pre_lines[i] = pl;
                call_expr[i] = format!("l{nm}(z)");
                // line is known only once the caller is emitted: store the offset of the mark inside the pre-lines
                frames_rev.push(Frame { ident: format!("LAMBDA:{}", 1 + mark), line: 0, std_thunk: false });
                frames_rev.push(Frame { ident: String::new(), line: 0, std_thunk: true });
                frame_ident = String::new();
                mark_line = 0;
            }
            _ => unreachable!(),
        }
        if !frame_ident.is_empty() {
            frames_rev.push(Frame { ident: frame_ident, line: mark_line, std_thunk: false });
        }
        // resolve the lambda frame of element i+1, whose definition sits at the top of this element's body
        if !failing && kinds[i + 1] == "lambda" && kind != "lambda" {
            for f in frames_rev.iter_mut() {
                if let Some(off) = f.ident.strip_prefix("LAMBDA:") {
                    if f.line == 0 {
                        let off: usize = off.parse().unwrap();
                        f.line = body0_line + off;
                        f.ident = String::new();
                    }
                }
            }
        }
        if kind == "mutating-method" && !failing {
            // nothing
        }
    }
    // main
    l.push("fn main() {");
    let mut stdout = String::new();
    let nprints = 1 + c.below(3);
    for k in 0..nprints {
        if c.chance(1, 3) {
            l.push(format!("    print(\"part{k}\");"));
            stdout.push_str(&format!("part{k}"));
        } else {
            l.push(format!("    println(\"line{k}\");"));
            stdout.push_str(&format!("line{k}\n"));
        }
    }
    l.push(format!("    let z: Int64 = {zval};"));
    let first_pre = l.lines.len() + 1;
    for p in &pre_lines[0] {
        l.push(format!("    {p}"));
    }
    let call_line = l.push(format!("    let r: Int64 = {};", call_expr[0]));
    l.push("    println(\"unreachable ${r}\");");
    l.push("}");
    // lambda defined in main
    if kinds[0] == "lambda" {
        for f in frames_rev.iter_mut() {
            if let Some(off) = f.ident.strip_prefix("LAMBDA:") {
                if f.line == 0 {
                    let off: usize = off.parse().unwrap();
                    f.line = first_pre + off;
                    f.ident = String::new();
                }
            }
        }
    }
    // the caller line of a mutating method is its `s.m(z);` pre-line, not the line that reads s.v
    // (pre-lines sit directly above the call line)
    let main_line = if kinds[0] == "mutating-method" { call_line - 1 } else { call_line };
    frames_rev.push(Frame { ident: "main".into(), line: main_line, std_thunk: false });
    let gc = if c.chance(1, 4) { Some(c.pick_str(&["copy", "sweep", "zero"]).to_string()) } else { None };
    TrapCase {
        source: l.lines.join("\n") + "\n",
        status,
        message: message.to_string(),
        frames: frames_rev,
        stdout,
        kinds: kinds.iter().map(|s| s.to_string()).collect(),
        op: op.to_string(),
        gc,
    }
}

pub struct TrapReports {
    pub tools: Tools,
}

fn parse_trace(stderr: &str) -> (String, Vec<(String, String, usize)>) {
    let mut lines = stderr.lines();
    let msg = lines.next().unwrap_or("").to_string();
    let mut frames = vec![];
    for l in lines {
        let t = l.trim();
        if let Some(p) = t.rfind(" (") {
            let name = t[..p].to_string();
            let loc = t[p + 2..].trim_end_matches(')');
            let mut parts = loc.rsplitn(3, ':');
            let _col = parts.next();
            let line: usize = parts.next().and_then(|x| x.parse().ok()).unwrap_or(0);
            let file = parts.next().unwrap_or("").to_string();
            frames.push((name, file, line));
        }
    }
    (msg, frames)
}

impl Prop for TrapReports {
    type Case = TrapCase;
    fn name(&self) -> &str {
        "trap-report"
    }
    fn generate(&self, c: &mut Choices) -> TrapCase {
        gen_trap(c)
    }
    fn eval(&self, case: &TrapCase) -> Outcome {
        let h = hash64(&(&case.source, &case.gc));
        let scratch = Scratch::new("c14");
        let src = scratch.file("prog.dora");
        std::fs::write(&src, &case.source).unwrap();
        let mut stderrs = vec![];
        for b in Backend::BOTH {
            let exe = scratch.file(&format!("prog-{}", b.name()));
            let cr = compile(&self.tools, &src, &exe, b, &CompileOpts { gc: case.gc.clone(), extra: vec![] }, Duration::from_secs(180));
            if cr.timed_out {
                return Outcome { inconclusive: Some("compile timed out".into()), hash: h, ..Default::default() };
            }
            if !cr.ok() {
                let err = cr.stderr_str();
                return Outcome::fail(h, format!("compile-failed:{}:{}", b.name(), crate::c01::compile_failure_signature(&err)), format!("{} generator: compile failed\n{}", b.name(), truncate_str(&crate::c01::strip_warnings(&err), 2000)));
            }
            let rr = run_exe(&exe, "", Duration::from_secs(30), &scratch.path);
            if rr.timed_out {
                return Outcome { inconclusive: Some("run timed out".into()), hash: h, ..Default::default() };
            }
            let stderr = rr.stderr_str();
            let (msg, frames) = parse_trace(&stderr);
            let status = rr.status.unwrap_or(-1);
            if rr.signal.is_some() || status != case.status || msg != case.message {
                return Outcome::fail(h, format!("kind:{}:{}", b.name(), case.op), format!("{} generator: expected status {} with message {:?}; got status {:?} signal {:?} message {:?}", b.name(), case.status, case.message, rr.status, rr.signal, msg));
            }
            // frames: expected sequence, innermost first
            let mut fi = 0usize;
            for (k, exp) in case.frames.iter().enumerate() {
                let Some((name, file, line)) = frames.get(fi) else {
                    return Outcome::fail(h, format!("frames-missing:{}", b.name()), format!("{} generator: trace ends after {} frames, expected {} (missing {:?})\n{}", b.name(), frames.len(), case.frames.len(), exp, stderr));
                };
                if exp.std_thunk {
                    if file.ends_with("prog.dora") {
                        return Outcome::fail(h, format!("frame-order:{}", b.name()), format!("{} generator: frame #{k} should be a library thunk frame, got {name} ({file}:{line})\n{stderr}", b.name()));
                    }
                } else {
                    let kind_of_frame = if k == 0 { "failing-op" } else { "caller" };
                    if !file.ends_with("prog.dora") || *line != exp.line || (!exp.ident.is_empty() && !name.contains(&exp.ident)) {
                        return Outcome::fail(
                            h,
                            format!("frame:{}:{}", b.name(), kind_of_frame),
                            format!("{} generator: frame #{k} should name {:?} at line {}, trace has {name} ({file}:{line})\n{stderr}\n--- kinds {:?}", b.name(), exp.ident, exp.line, case.kinds),
                        );
                    }
                }
                fi += 1;
            }
            if frames.len() != case.frames.len() {
                return Outcome::fail(h, format!("frames-extra:{}", b.name()), format!("{} generator: trace has {} frames, the call chain has {}\n{}", b.name(), frames.len(), case.frames.len(), stderr));
            }
            let out = rr.stdout_str();
            if out != case.stdout {
                let lost_partial = case.stdout.starts_with(&out) && !case.stdout.ends_with('\n');
                return Outcome::fail(
                    h,
                    if lost_partial { "stdout-lost:unterminated-last-line".to_string() } else { format!("stdout-lost:{}", b.name()) },
                    format!("{} generator: output written before the trap was not delivered: expected {:?}, got {:?}", b.name(), case.stdout, out),
                );
            }
            stderrs.push(stderr.replace(&scratch.path.display().to_string(), ""));
        }
        if stderrs[0] != stderrs[1] {
            return Outcome::fail(h, "generators-disagree:report", format!("trap reports differ between the generators:\n--- baseline\n{}\n--- optimizing\n{}", stderrs[0], stderrs[1]));
        }
        let nonplain = case.kinds.iter().filter(|k| *k != "plain").count();
        let mut o = Outcome::pass(h, case.kinds.len() >= 3 && nonplain >= 1).class(format!("op:{}", case.op)).class(format!("depth:{}", case.kinds.len()));
        for k in &case.kinds {
            o = o.class(format!("callee:{k}"));
        }
        o.class_if(case.gc.is_some(), "non-default-collector").class_if(!case.stdout.ends_with('\n'), "unterminated-output-before-trap")
    }
    fn render(&self, case: &TrapCase) -> Value {
        json!({"source": case.source, "status": case.status, "message": case.message, "stdout": case.stdout, "kinds": case.kinds, "op": case.op, "gc": case.gc,
               "frames": case.frames.iter().map(|f| json!({"ident": f.ident, "line": f.line, "std_thunk": f.std_thunk})).collect::<Vec<_>>()})
    }
    fn from_rendered(&self, v: &Value) -> Option<TrapCase> {
        Some(TrapCase {
            source: v["source"].as_str()?.to_string(),
            status: v["status"].as_i64()? as i32,
            message: v["message"].as_str()?.to_string(),
            stdout: v["stdout"].as_str()?.to_string(),
            kinds: v["kinds"].as_array()?.iter().filter_map(|x| x.as_str().map(String::from)).collect(),
            op: v["op"].as_str().unwrap_or("").to_string(),
            gc: v["gc"].as_str().map(String::from),
            frames: v["frames"].as_array()?.iter().map(|f| Frame { ident: f["ident"].as_str().unwrap_or("").into(), line: f["line"].as_u64().unwrap_or(0) as usize, std_thunk: f["std_thunk"].as_bool().unwrap_or(false) }).collect(),
        })
    }
}

pub fn main(mode: Mode) -> i32 {
    let p = TrapReports { tools: Tools::release() };
    match mode {
        Mode::Worker(_) => 2,
        Mode::Minimize(_, doc) => {
            let mut ctx = Ctx::new("C14", "quick");
            ctx.minimize_stored(&p, &doc, 200)
        }
        Mode::Replay(_, doc) => {
            let mut ctx = Ctx::new("C14", "quick");
            ctx.replay(&p, &doc)
        }
        Mode::Run(tier) => {
            let mut ctx = Ctx::new("C14", &tier);
            if !p.tools.has_boots() {
                println!("INCONCLUSIVE property=C14 the optimizing compiler could not be bootstrapped from this tree");
                return 2;
            }
            ctx.rule = "cases: generated programs with exactly one failing operation (div/mod by 0, add/sub/mul/neg/div overflow on Int64 and Int32, shift amount, array get/set out of bounds, assert, fatal_error) on its own line in the innermost function of a generated call chain of depth 1-6 mixing plain, generic, class-method, struct mutating-method, lambda, trait-object and small (inlinable) callees; prints with and without trailing newline before the trap; default and non-default collectors. oracle: exit status and message identify the failure kind; frame 1 names the failing function and the line of the failing operation; the following frames name the generator-known chain of callers with their call lines, innermost first (lambda frames: line only; library thunk frames only where a lambda/trait-object call requires them); the report is byte-identical for both code generators; everything printed before the trap arrives on a piped stdout. non-trivial = chain depth >= 3 with >= 1 non-plain callee; distinct by source hash".into();
            ctx.run_regressions(&p);
            ctx.run_known_reproducers(&p);
            let n = ctx.n(250, 5000);
            ctx.run_search(&p, n, 40, 40);
            ctx.require_class("trap-report/callee:lambda");
            ctx.require_class("trap-report/callee:trait-object");
            ctx.require_class("trap-report/callee:small");
            ctx.finish()
        }
    }
}
