//! Block-caching global allocator.
//!
//! Cases with 2^21 registers / constant-pool entries need a few hundred MB inside the writer under
//! test. In this sandbox the first touch of a fresh page costs ~100 µs, so handing big blocks back
//! to the OS after every case (what glibc does above its mmap threshold) makes such a case take
//! many seconds. Blocks >= 64 KiB are therefore rounded up to a power of two and kept for reuse
//! instead of being freed. Everything smaller goes straight to the system allocator.

use std::alloc::{GlobalAlloc, Layout, System};
use std::sync::atomic::{AtomicUsize, Ordering};

pub struct Caching;

const MIN_SHIFT: u32 = 16;
const MAX_SHIFT: u32 = 34;
const NCLASS: usize = (MAX_SHIFT - MIN_SHIFT + 1) as usize;
const SLOTS: usize = 48;
const ALIGN: usize = 4096;

pub static FRESH_BYTES: AtomicUsize = AtomicUsize::new(0);
pub static REUSED_BYTES: AtomicUsize = AtomicUsize::new(0);

static POOL: [[AtomicUsize; SLOTS]; NCLASS] = [const { [const { AtomicUsize::new(0) }; SLOTS] }; NCLASS];

#[inline]
fn class_of(layout: &Layout) -> Option<usize> {
    let size = layout.size();
    if size < (1usize << MIN_SHIFT) || layout.align() > ALIGN {
        return None;
    }
    let shift = usize::BITS - (size - 1).leading_zeros();
    if shift > MAX_SHIFT {
        return None;
    }
    Some((shift.max(MIN_SHIFT) - MIN_SHIFT) as usize)
}

#[inline]
fn class_layout(class: usize) -> Layout {
    unsafe { Layout::from_size_align_unchecked(1usize << (class as u32 + MIN_SHIFT), ALIGN) }
}

unsafe impl GlobalAlloc for Caching {
    unsafe fn alloc(&self, layout: Layout) -> *mut u8 {
        match class_of(&layout) {
            None => unsafe { System.alloc(layout) },
            Some(c) => {
                for slot in POOL[c].iter() {
                    if slot.load(Ordering::Relaxed) != 0 {
                        let p = slot.swap(0, Ordering::AcqRel);
                        if p != 0 {
                            REUSED_BYTES.fetch_add(1usize << (c as u32 + MIN_SHIFT), Ordering::Relaxed);
                            return p as *mut u8;
                        }
                    }
                }
                FRESH_BYTES.fetch_add(1usize << (c as u32 + MIN_SHIFT), Ordering::Relaxed);
                unsafe { System.alloc(class_layout(c)) }
            }
        }
    }

    unsafe fn dealloc(&self, ptr: *mut u8, layout: Layout) {
        match class_of(&layout) {
            None => unsafe { System.dealloc(ptr, layout) },
            Some(c) => {
                for slot in POOL[c].iter() {
                    if slot.load(Ordering::Relaxed) == 0 && slot.compare_exchange(0, ptr as usize, Ordering::AcqRel, Ordering::Relaxed).is_ok() {
                        return;
                    }
                }
                unsafe { System.dealloc(ptr, class_layout(c)) }
            }
        }
    }

    unsafe fn alloc_zeroed(&self, layout: Layout) -> *mut u8 {
        match class_of(&layout) {
            None => unsafe { System.alloc_zeroed(layout) },
            Some(_) => {
                let p = unsafe { self.alloc(layout) };
                if !p.is_null() {
                    unsafe { std::ptr::write_bytes(p, 0, layout.size()) };
                }
                p
            }
        }
    }

    unsafe fn realloc(&self, ptr: *mut u8, layout: Layout, new_size: usize) -> *mut u8 {
        let new_layout = unsafe { Layout::from_size_align_unchecked(new_size, layout.align()) };
        let (old_c, new_c) = (class_of(&layout), class_of(&new_layout));
        if old_c.is_none() && new_c.is_none() {
            return unsafe { System.realloc(ptr, layout, new_size) };
        }
        if old_c == new_c {
            return ptr; // same block still fits
        }
        let np = unsafe { self.alloc(new_layout) };
        if !np.is_null() {
            unsafe {
                std::ptr::copy_nonoverlapping(ptr, np, layout.size().min(new_size));
                self.dealloc(ptr, layout);
            }
        }
        np
    }
}
