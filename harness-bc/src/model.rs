//! Model of a bytecode function as the list of `BytecodeWriter::emit_*` calls that produce it.
//!
//! `M` has exactly one variant per public `emit_*` method of the writer (the run checks this
//! against the source of writer.rs). An `Item` is one call (or `rep` identical consecutive calls,
//! used as padding so that jump distances can reach 2^21 bytes with at most 400 items).

use dora_bytecode::BytecodeOpcode;
use serde_json::{Value, json};

#[derive(Clone, Copy, Debug, PartialEq, Eq, Hash)]
pub enum Shape {
    /// three registers
    R3,
    /// two registers
    R2,
    /// one register
    R1,
    /// two registers + constant-pool index
    R2I,
    /// register + global id
    RG,
    /// register + const id
    RC,
    /// register + literal (pool entry added by the writer; uint8 is inline)
    Lit,
    /// conditional forward jump: register + label
    JF,
    /// unconditional forward jump
    J,
    /// backward jump
    JL,
    /// no operands
    LS,
    /// switch: register + jump table
    SW,
    /// dest + constant-pool index + argument list
    INV,
}

macro_rules! methods {
    ($( $v:ident, $name:literal, $shape:ident; )*) => {
        #[derive(Clone, Copy, Debug, PartialEq, Eq, Hash, PartialOrd, Ord)]
        pub enum M { $($v),* }
        impl M {
            pub const ALL: &'static [M] = &[$(M::$v),*];
            /// name of the writer method without the `emit_` prefix
            pub fn name(self) -> &'static str { match self { $(M::$v => $name),* } }
            pub fn shape(self) -> Shape { match self { $(M::$v => Shape::$shape),* } }
            pub fn opcode(self) -> BytecodeOpcode { match self { $(M::$v => BytecodeOpcode::$v),* } }
        }
    }
}

methods! {
    Add, "add", R3;
    And, "and", R3;
    Or, "or", R3;
    Xor, "xor", R3;
    Div, "div", R3;
    Mod, "mod", R3;
    CheckedAdd, "checked_add", R3;
    CheckedSub, "checked_sub", R3;
    CheckedMul, "checked_mul", R3;
    CheckedDiv, "checked_div", R3;
    CheckedMod, "checked_mod", R3;
    Mul, "mul", R3;
    Shl, "shl", R3;
    Shr, "shr", R3;
    Sar, "sar", R3;
    Sub, "sub", R3;
    TestIdentity, "test_identity", R3;
    TestEq, "test_eq", R3;
    TestNe, "test_ne", R3;
    TestGt, "test_gt", R3;
    TestGe, "test_ge", R3;
    TestLt, "test_lt", R3;
    TestLe, "test_le", R3;
    StoreArray, "store_array", R3;
    LoadArray, "load_array", R3;
    GetArrayRef, "get_array_ref", R3;
    Not, "not", R2;
    CheckedNeg, "checked_neg", R2;
    Neg, "neg", R2;
    Mov, "mov", R2;
    ArrayLength, "array_length", R2;
    StoreRef, "store_ref", R2;
    LoadRef, "load_ref", R2;
    GetRegisterRef, "get_register_ref", R2;
    ConstTrue, "const_true", R1;
    ConstFalse, "const_false", R1;
    Ret, "ret", R1;
    LoadField, "load_field", R2I;
    StoreField, "store_field", R2I;
    LoadEnumElement, "load_enum_element", R2I;
    LoadEnumVariant, "load_enum_variant", R2I;
    NewArray, "new_array", R2I;
    NewTraitObject, "new_trait_object", R2I;
    GetFieldRef, "get_field_ref", R2I;
    LoadGlobal, "load_global", RG;
    StoreGlobal, "store_global", RG;
    GetGlobalRef, "get_global_ref", RG;
    LoadConst, "load_const", RC;
    ConstChar, "const_char", Lit;
    ConstUInt8, "const_uint8", Lit;
    ConstInt32, "const_int32", Lit;
    ConstInt64, "const_int64", Lit;
    ConstFloat32, "const_float32", Lit;
    ConstFloat64, "const_float64", Lit;
    ConstString, "const_string", Lit;
    JumpIfFalse, "jump_if_false", JF;
    JumpIfTrue, "jump_if_true", JF;
    Jump, "jump", J;
    JumpLoop, "jump_loop", JL;
    LoopStart, "loop_start", LS;
    Switch, "switch", SW;
    InvokeDirect, "invoke_direct", INV;
    InvokeVirtual, "invoke_virtual", INV;
    InvokeStatic, "invoke_static", INV;
    InvokeGenericStatic, "invoke_generic_static", INV;
    InvokeGenericDirect, "invoke_generic_direct", INV;
    NewObject, "new_object", INV;
    NewTuple, "new_tuple", INV;
    NewEnum, "new_enum", INV;
    NewStruct, "new_struct", INV;
}

impl M {
    pub fn from_name(s: &str) -> Option<M> {
        M::ALL.iter().copied().find(|m| m.name() == s)
    }
    pub fn nregs(self) -> usize {
        match self.shape() {
            Shape::R3 => 3,
            Shape::R2 | Shape::R2I => 2,
            Shape::R1 | Shape::RG | Shape::RC | Shape::Lit | Shape::JF | Shape::SW | Shape::INV => 1,
            Shape::J | Shape::JL | Shape::LS => 0,
        }
    }
    pub fn needs_location(self) -> bool {
        self.opcode().needs_location()
    }
    pub fn opcode_u8(self) -> u8 {
        u8::from(self.opcode())
    }
    /// may be repeated as padding (no label, no pool entry)
    pub fn paddable(self) -> bool {
        matches!(self.shape(), Shape::R3 | Shape::R2 | Shape::R1 | Shape::LS | Shape::R2I | Shape::RG | Shape::RC)
    }
}

#[derive(Clone, Debug, PartialEq, Eq, Hash)]
pub enum Lit {
    None,
    U8(u8),
    /// unicode scalar value
    Char(u32),
    I32(i32),
    I64(i64),
    /// bit pattern
    F32(u32),
    /// bit pattern
    F64(u64),
    Str(String),
}

#[derive(Clone, Debug, PartialEq, Eq, Hash)]
pub struct Item {
    pub m: M,
    /// register operands in visitor order, argument registers excluded
    pub r: Vec<u32>,
    /// explicitly passed constant-pool index (R2I, INV) or global / const id (RG, RC)
    pub idx: u32,
    pub args: Vec<u32>,
    pub lit: Lit,
    /// jump target as an item index (items.len() = end of the code)
    pub target: usize,
    /// switch: jump-table targets and default target as item indices
    pub table: Vec<usize>,
    pub default: usize,
    /// `set_location` called before the emit call (before every copy)
    pub loc: Option<(u32, u32)>,
    /// number of identical consecutive calls (>1 only for paddable methods)
    pub rep: u32,
}

impl Item {
    pub fn new(m: M) -> Item {
        Item { m, r: vec![0; m.nregs()], idx: 0, args: vec![], lit: Lit::None, target: 0, table: vec![], default: 0, loc: None, rep: 1 }
    }
}

#[derive(Clone, Debug, PartialEq, Eq, Hash)]
pub struct Case {
    /// registers added with add_register before the code
    pub nregs: u32,
    /// filler constant-pool entries added with add_const before the code
    pub prefill: u32,
    pub items: Vec<Item>,
    pub kind: String,
}

pub fn varint_len(v: u32) -> u32 {
    match v {
        0..=0x7f => 1,
        0x80..=0x3fff => 2,
        0x4000..=0x1f_ffff => 3,
        0x20_0000..=0xfff_ffff => 4,
        _ => 5,
    }
}

impl Case {
    /// Bring every label reference into the range the writer accepts (forward jumps strictly forward,
    /// backward jumps not forward, everything inside 0..=len) and every count into the documented limits.
    pub fn normalize(&mut self) {
        let n = self.items.len();
        for (i, it) in self.items.iter_mut().enumerate() {
            it.r.resize(it.m.nregs(), 0);
            if it.rep == 0 || !it.m.paddable() {
                it.rep = 1;
            }
            match it.m.shape() {
                Shape::JF | Shape::J => it.target = it.target.clamp(i + 1, n),
                Shape::JL => it.target = it.target.min(i),
                Shape::SW => {
                    for t in it.table.iter_mut() {
                        *t = (*t).min(n);
                    }
                    it.default = it.default.min(n);
                }
                _ => {}
            }
            if it.m.needs_location() && it.loc.is_none() {
                it.loc = Some((1, 1));
            }
            if it.m.shape() == Shape::Lit && it.lit == Lit::None {
                it.lit = match it.m {
                    M::ConstChar => Lit::Char(0),
                    M::ConstUInt8 => Lit::U8(0),
                    M::ConstInt32 => Lit::I32(0),
                    M::ConstInt64 => Lit::I64(0),
                    M::ConstFloat32 => Lit::F32(0),
                    M::ConstFloat64 => Lit::F64(0),
                    _ => Lit::Str(String::new()),
                };
            }
        }
    }

    /// Remove item `j`, keeping every label on the instruction it was bound before.
    pub fn without(&self, j: usize) -> Case {
        let mut c = self.clone();
        c.items.remove(j);
        let fix = |t: &mut usize| {
            if *t > j {
                *t -= 1;
            }
        };
        for it in c.items.iter_mut() {
            fix(&mut it.target);
            fix(&mut it.default);
            for t in it.table.iter_mut() {
                fix(t);
            }
        }
        c.normalize();
        c
    }

    /// total number of emit calls
    pub fn calls(&self) -> u64 {
        self.items.iter().map(|i| i.rep as u64).sum()
    }
}

// ---------------------------------------------------------------------------
// JSON

fn lit_json(l: &Lit) -> Value {
    match l {
        Lit::None => Value::Null,
        Lit::U8(v) => json!({"t":"u8","v":v}),
        Lit::Char(v) => json!({"t":"char","v":v}),
        Lit::I32(v) => json!({"t":"i32","v":v}),
        Lit::I64(v) => json!({"t":"i64","v":v}),
        Lit::F32(v) => json!({"t":"f32bits","v":v}),
        Lit::F64(v) => json!({"t":"f64bits","v":v}),
        Lit::Str(v) => json!({"t":"str","v":v}),
    }
}

fn lit_from(v: &Value) -> Lit {
    let x = &v["v"];
    match v["t"].as_str() {
        Some("u8") => Lit::U8(x.as_u64().unwrap_or(0) as u8),
        Some("char") => Lit::Char(x.as_u64().unwrap_or(0) as u32),
        Some("i32") => Lit::I32(x.as_i64().unwrap_or(0) as i32),
        Some("i64") => Lit::I64(x.as_i64().unwrap_or(0)),
        Some("f32bits") => Lit::F32(x.as_u64().unwrap_or(0) as u32),
        Some("f64bits") => Lit::F64(x.as_u64().unwrap_or(0)),
        Some("str") => Lit::Str(x.as_str().unwrap_or("").to_string()),
        _ => Lit::None,
    }
}

pub fn item_json(it: &Item) -> Value {
    let mut o = serde_json::Map::new();
    o.insert("m".into(), json!(it.m.name()));
    if !it.r.is_empty() {
        o.insert("r".into(), json!(it.r));
    }
    match it.m.shape() {
        Shape::R2I | Shape::INV | Shape::RG | Shape::RC => {
            o.insert("idx".into(), json!(it.idx));
        }
        _ => {}
    }
    if it.m.shape() == Shape::INV {
        o.insert("args".into(), json!(it.args));
    }
    if it.lit != Lit::None {
        o.insert("lit".into(), lit_json(&it.lit));
    }
    match it.m.shape() {
        Shape::JF | Shape::J | Shape::JL => {
            o.insert("target".into(), json!(it.target));
        }
        Shape::SW => {
            o.insert("table".into(), json!(it.table));
            o.insert("default".into(), json!(it.default));
        }
        _ => {}
    }
    if let Some((l, c)) = it.loc {
        o.insert("loc".into(), json!([l, c]));
    }
    if it.rep != 1 {
        o.insert("rep".into(), json!(it.rep));
    }
    Value::Object(o)
}

pub fn case_json(c: &Case) -> Value {
    json!({
        "nregs": c.nregs,
        "prefill": c.prefill,
        "kind": c.kind,
        "calls": c.calls(),
        "items": c.items.iter().map(item_json).collect::<Vec<_>>(),
    })
}

pub fn case_from_json(v: &Value) -> Option<Case> {
    let mut items = vec![];
    for iv in v["items"].as_array()? {
        let m = M::from_name(iv["m"].as_str()?)?;
        let mut it = Item::new(m);
        let u32s = |x: &Value| -> Vec<u32> { x.as_array().map(|a| a.iter().map(|e| e.as_u64().unwrap_or(0) as u32).collect()).unwrap_or_default() };
        let usizes = |x: &Value| -> Vec<usize> { x.as_array().map(|a| a.iter().map(|e| e.as_u64().unwrap_or(0) as usize).collect()).unwrap_or_default() };
        if iv.get("r").is_some() {
            it.r = u32s(&iv["r"]);
        }
        it.idx = iv["idx"].as_u64().unwrap_or(0) as u32;
        it.args = u32s(&iv["args"]);
        it.lit = lit_from(&iv["lit"]);
        it.target = iv["target"].as_u64().unwrap_or(0) as usize;
        it.table = usizes(&iv["table"]);
        it.default = iv["default"].as_u64().unwrap_or(0) as usize;
        it.loc = iv["loc"].as_array().and_then(|a| Some((a.first()?.as_u64()? as u32, a.get(1)?.as_u64()? as u32)));
        it.rep = iv["rep"].as_u64().unwrap_or(1) as u32;
        items.push(it);
    }
    let mut c = Case {
        nregs: v["nregs"].as_u64()? as u32,
        prefill: v["prefill"].as_u64()? as u32,
        items,
        kind: v["kind"].as_str().unwrap_or("replay").to_string(),
    };
    c.normalize();
    Some(c)
}
