//! Oracle: write a case with the real `BytecodeWriter`, read the generated body back with the real
//! reader through a `BytecodeVisitor`, and compare with what was written.

use crate::model::*;
use dora_bytecode::{
    BytecodeBody, BytecodeOffset, BytecodeType, BytecodeTypeArray, BytecodeVisitor, BytecodeWriter, ClassId, ConstId, ConstPoolEntry, ConstPoolIdx, EnumId,
    FunctionId, GlobalId, Label, Location, Register, StructId, read,
};
use std::sync::atomic::{AtomicU64, Ordering};

pub static OPCODES_SEEN: [AtomicU64; 70] = [const { AtomicU64::new(0) }; 70];

// ---------------------------------------------------------------------------
// Deterministic filler content (what was written is a function of the index, so the
// expectation needs no storage even for 2^21 entries).

pub fn reg_type(i: u32) -> BytecodeType {
    match i % 11 {
        0 => BytecodeType::Int64,
        1 => BytecodeType::Bool,
        2 => BytecodeType::UInt8,
        3 => BytecodeType::Char,
        4 => BytecodeType::Int32,
        5 => BytecodeType::Unit,
        6 => BytecodeType::Float32,
        7 => BytecodeType::Float64,
        8 => BytecodeType::Address,
        9 => BytecodeType::TypeParam(i),
        _ => BytecodeType::This,
    }
}

pub fn filler(i: u32, empty: &BytecodeTypeArray) -> ConstPoolEntry {
    match i % 13 {
        0 => ConstPoolEntry::Int32(i as i32),
        1 => ConstPoolEntry::Int64(-(i as i64)),
        2 => ConstPoolEntry::Char(char::from_u32(0x61 + (i % 26)).unwrap()),
        3 => ConstPoolEntry::Float64(i as f64 * 0.5),
        4 => ConstPoolEntry::Float32(i as f32),
        5 => ConstPoolEntry::Fct(FunctionId::from(i as usize), empty.clone()),
        6 => ConstPoolEntry::ClassField(ClassId::from(i as usize), empty.clone(), i ^ 1),
        7 => ConstPoolEntry::EnumVariant(EnumId::from(i as usize), empty.clone(), i % 7),
        8 => ConstPoolEntry::Struct(StructId::from(i as usize), empty.clone()),
        9 => ConstPoolEntry::TupleElement(BytecodeType::Int32, i),
        10 => ConstPoolEntry::Class(ClassId::from(i as usize), empty.clone()),
        11 => ConstPoolEntry::EnumElement(EnumId::from(i as usize), empty.clone(), 1, i),
        _ => {
            if i % 1024 == 12 {
                ConstPoolEntry::String(format!("s{i}"))
            } else {
                ConstPoolEntry::Int32(!(i as i32))
            }
        }
    }
}

pub fn entry_eq(a: &ConstPoolEntry, b: &ConstPoolEntry) -> bool {
    match (a, b) {
        (ConstPoolEntry::Float32(x), ConstPoolEntry::Float32(y)) => x.to_bits() == y.to_bits(),
        (ConstPoolEntry::Float64(x), ConstPoolEntry::Float64(y)) => x.to_bits() == y.to_bits(),
        _ => a == b,
    }
}

fn lit_entry(l: &Lit) -> Option<ConstPoolEntry> {
    Some(match l {
        Lit::None | Lit::U8(_) => return None,
        Lit::Char(v) => ConstPoolEntry::Char(char::from_u32(*v).unwrap_or('\u{fffd}')),
        Lit::I32(v) => ConstPoolEntry::Int32(*v),
        Lit::I64(v) => ConstPoolEntry::Int64(*v),
        Lit::F32(v) => ConstPoolEntry::Float32(f32::from_bits(*v)),
        Lit::F64(v) => ConstPoolEntry::Float64(f64::from_bits(*v)),
        Lit::Str(s) => ConstPoolEntry::String(s.clone()),
    })
}

// ---------------------------------------------------------------------------
// Writing

/// What the model expects beyond the items themselves.
pub struct Derived {
    /// per item: index of the pool entry the writer must have created for it (Lit except uint8, Switch)
    pub pool_idx: Vec<Option<u32>>,
    /// pool entries after the prefill, in order: the item that owns it (None = offset probe table)
    pub pool_owner: Vec<Option<usize>>,
    pub probe_idx: u32,
}

pub fn write_case(case: &Case) -> (BytecodeBody, Derived) {
    let n = case.items.len();
    let mut w = BytecodeWriter::new();
    for i in 0..case.nregs {
        let r = w.add_register(reg_type(i));
        assert_eq!(r.to_usize(), i as usize, "add_register returned an unexpected register");
    }
    let empty = BytecodeTypeArray::empty();
    for i in 0..case.prefill {
        let idx = w.add_const(filler(i, &empty));
        assert_eq!(idx.0, i, "add_const returned an unexpected index");
    }
    let mut pool_len = case.prefill;
    let mut d = Derived { pool_idx: vec![None; n], pool_owner: vec![], probe_idx: 0 };

    // forward labels: created on first use (create_label), bound when their item is reached;
    // every item start additionally gets a define_label() label, used by backward references and
    // by the offset probe table.
    let mut fwd: Vec<Option<Label>> = vec![None; n + 1];
    let mut here: Vec<Label> = Vec::with_capacity(n + 1);

    for (k, it) in case.items.iter().enumerate() {
        if let Some(l) = fwd[k] {
            w.bind_label(l);
        }
        here.push(w.define_label());
        let reg = |i: usize| Register(it.r[i] as usize);
        let args: Vec<Register> = it.args.iter().map(|&a| Register(a as usize)).collect();
        let idx = ConstPoolIdx(it.idx);
        for _copy in 0..it.rep {
            if let Some((l, c)) = it.loc {
                w.set_location(Location::new(l, c));
            }
            match it.m {
                M::Add => w.emit_add(reg(0), reg(1), reg(2)),
                M::And => w.emit_and(reg(0), reg(1), reg(2)),
                M::Or => w.emit_or(reg(0), reg(1), reg(2)),
                M::Xor => w.emit_xor(reg(0), reg(1), reg(2)),
                M::Div => w.emit_div(reg(0), reg(1), reg(2)),
                M::Mod => w.emit_mod(reg(0), reg(1), reg(2)),
                M::CheckedAdd => w.emit_checked_add(reg(0), reg(1), reg(2)),
                M::CheckedSub => w.emit_checked_sub(reg(0), reg(1), reg(2)),
                M::CheckedMul => w.emit_checked_mul(reg(0), reg(1), reg(2)),
                M::CheckedDiv => w.emit_checked_div(reg(0), reg(1), reg(2)),
                M::CheckedMod => w.emit_checked_mod(reg(0), reg(1), reg(2)),
                M::Mul => w.emit_mul(reg(0), reg(1), reg(2)),
                M::Shl => w.emit_shl(reg(0), reg(1), reg(2)),
                M::Shr => w.emit_shr(reg(0), reg(1), reg(2)),
                M::Sar => w.emit_sar(reg(0), reg(1), reg(2)),
                M::Sub => w.emit_sub(reg(0), reg(1), reg(2)),
                M::TestIdentity => w.emit_test_identity(reg(0), reg(1), reg(2)),
                M::TestEq => w.emit_test_eq(reg(0), reg(1), reg(2)),
                M::TestNe => w.emit_test_ne(reg(0), reg(1), reg(2)),
                M::TestGt => w.emit_test_gt(reg(0), reg(1), reg(2)),
                M::TestGe => w.emit_test_ge(reg(0), reg(1), reg(2)),
                M::TestLt => w.emit_test_lt(reg(0), reg(1), reg(2)),
                M::TestLe => w.emit_test_le(reg(0), reg(1), reg(2)),
                M::StoreArray => w.emit_store_array(reg(0), reg(1), reg(2)),
                M::LoadArray => w.emit_load_array(reg(0), reg(1), reg(2)),
                M::GetArrayRef => w.emit_get_array_ref(reg(0), reg(1), reg(2)),
                M::Not => w.emit_not(reg(0), reg(1)),
                M::CheckedNeg => w.emit_checked_neg(reg(0), reg(1)),
                M::Neg => w.emit_neg(reg(0), reg(1)),
                M::Mov => w.emit_mov(reg(0), reg(1)),
                M::ArrayLength => w.emit_array_length(reg(0), reg(1)),
                M::StoreRef => w.emit_store_ref(reg(0), reg(1)),
                M::LoadRef => w.emit_load_ref(reg(0), reg(1)),
                M::GetRegisterRef => w.emit_get_register_ref(reg(0), reg(1)),
                M::ConstTrue => w.emit_const_true(reg(0)),
                M::ConstFalse => w.emit_const_false(reg(0)),
                M::Ret => w.emit_ret(reg(0)),
                M::LoadField => w.emit_load_field(reg(0), reg(1), idx),
                M::StoreField => w.emit_store_field(reg(0), reg(1), idx),
                M::LoadEnumElement => w.emit_load_enum_element(reg(0), reg(1), idx),
                M::LoadEnumVariant => w.emit_load_enum_variant(reg(0), reg(1), idx),
                M::NewArray => w.emit_new_array(reg(0), reg(1), idx),
                // writer signature is (dest, idx, src); the visitor reports (dest, src, idx)
                M::NewTraitObject => w.emit_new_trait_object(reg(0), idx, reg(1)),
                M::GetFieldRef => w.emit_get_field_ref(reg(0), reg(1), idx),
                M::LoadGlobal => w.emit_load_global(reg(0), GlobalId::from(it.idx as usize)),
                M::StoreGlobal => w.emit_store_global(reg(0), GlobalId::from(it.idx as usize)),
                M::GetGlobalRef => w.emit_get_global_ref(reg(0), GlobalId::from(it.idx as usize)),
                M::LoadConst => w.emit_load_const(reg(0), ConstId::from(it.idx as usize)),
                M::ConstUInt8 => match &it.lit {
                    Lit::U8(v) => w.emit_const_uint8(reg(0), *v),
                    other => panic!("harness: const_uint8 with literal {other:?}"),
                },
                M::ConstChar | M::ConstInt32 | M::ConstInt64 | M::ConstFloat32 | M::ConstFloat64 | M::ConstString => {
                    d.pool_idx[k] = Some(pool_len);
                    d.pool_owner.push(Some(k));
                    pool_len += 1;
                    match (&it.m, &it.lit) {
                        (M::ConstChar, Lit::Char(v)) => w.emit_const_char(reg(0), char::from_u32(*v).unwrap_or('\u{fffd}')),
                        (M::ConstInt32, Lit::I32(v)) => w.emit_const_int32(reg(0), *v),
                        (M::ConstInt64, Lit::I64(v)) => w.emit_const_int64(reg(0), *v),
                        (M::ConstFloat32, Lit::F32(v)) => w.emit_const_float32(reg(0), f32::from_bits(*v)),
                        (M::ConstFloat64, Lit::F64(v)) => w.emit_const_float64(reg(0), f64::from_bits(*v)),
                        (M::ConstString, Lit::Str(v)) => w.emit_const_string(reg(0), v.clone()),
                        (m, l) => panic!("harness: {m:?} with literal {l:?}"),
                    }
                }
                M::JumpIfFalse | M::JumpIfTrue | M::Jump => {
                    let t = it.target;
                    assert!(t > k && t <= n, "harness: forward jump target out of range");
                    let l = match fwd[t] {
                        Some(l) => l,
                        None => {
                            let l = w.create_label();
                            fwd[t] = Some(l);
                            l
                        }
                    };
                    match it.m {
                        M::JumpIfFalse => w.emit_jump_if_false(reg(0), l),
                        M::JumpIfTrue => w.emit_jump_if_true(reg(0), l),
                        _ => w.emit_jump(l),
                    }
                }
                M::JumpLoop => {
                    assert!(it.target <= k, "harness: backward jump target out of range");
                    w.emit_jump_loop(here[it.target]);
                }
                M::LoopStart => w.emit_loop_start(),
                M::Switch => {
                    let mut lbl = |t: usize, w: &mut BytecodeWriter| -> Label {
                        assert!(t <= n, "harness: switch target out of range");
                        if t <= k {
                            here[t]
                        } else {
                            match fwd[t] {
                                Some(l) => l,
                                None => {
                                    let l = w.create_label();
                                    fwd[t] = Some(l);
                                    l
                                }
                            }
                        }
                    };
                    let targets: Vec<Label> = it.table.iter().map(|&t| lbl(t, &mut w)).collect();
                    let def = lbl(it.default, &mut w);
                    let tidx = w.add_const_jump_table(targets, def);
                    assert_eq!(tidx.0, pool_len, "add_const_jump_table returned an unexpected index");
                    d.pool_idx[k] = Some(pool_len);
                    d.pool_owner.push(Some(k));
                    pool_len += 1;
                    w.emit_switch(reg(0), tidx);
                }
                M::InvokeDirect => w.emit_invoke_direct(reg(0), idx, &args),
                M::InvokeVirtual => w.emit_invoke_virtual(reg(0), idx, &args),
                M::InvokeStatic => w.emit_invoke_static(reg(0), idx, &args),
                M::InvokeGenericStatic => w.emit_invoke_generic_static(reg(0), idx, &args),
                M::InvokeGenericDirect => w.emit_invoke_generic_direct(reg(0), idx, &args),
                M::NewObject => w.emit_new_object(reg(0), idx, &args),
                M::NewTuple => w.emit_new_tuple(reg(0), idx, &args),
                M::NewEnum => w.emit_new_enum(reg(0), idx, &args),
                M::NewStruct => w.emit_new_struct(reg(0), idx, &args),
            }
        }
    }
    if let Some(l) = fwd[n] {
        w.bind_label(l);
    }
    let end = w.define_label();
    // Offset probe: the writer's own idea of where every item starts, obtained through the public
    // API (a jump table over the define_label() labels is resolved to absolute offsets).
    let probe = w.add_const_jump_table(here.clone(), end);
    d.probe_idx = probe.0;
    d.pool_owner.push(None);
    (w.generate(), d)
}

// ---------------------------------------------------------------------------
// Reading

#[derive(Clone, Debug, PartialEq)]
pub struct Dec {
    pub off: u32,
    pub m: M,
    pub r: Vec<u64>,
    pub idx: Option<u32>,
    pub args: Option<Vec<u64>>,
    pub u8v: Option<u8>,
    /// absolute target offset of a jump (start ± distance), raw distance
    pub tgt: Option<(i64, u32)>,
}

/// `count` identical instructions at offsets off, off+spacing, ...
#[derive(Clone, Debug)]
pub struct Run {
    pub d: Dec,
    pub count: u32,
    pub spacing: u32,
}

pub struct Collect {
    pub runs: Vec<Run>,
    cur: Option<u32>,
    prev: Option<u32>,
    pub order_error: Option<String>,
    pub total: u64,
    pub overflow: bool,
}

const MAX_RUNS: usize = 200_000;

impl Collect {
    pub fn new() -> Collect {
        Collect { runs: vec![], cur: None, prev: None, order_error: None, total: 0, overflow: false }
    }
    fn push(&mut self, m: M, r: &[Register], idx: Option<u32>, args: Option<Vec<Register>>, u8v: Option<u8>, jump: Option<(bool, u32)>) {
        let off = match self.cur.take() {
            Some(o) => o,
            None => {
                if self.order_error.is_none() {
                    self.order_error = Some(format!("visit_{} called without a preceding visit_instruction", m.name()));
                }
                self.prev.unwrap_or(0)
            }
        };
        self.total += 1;
        let tgt = jump.map(|(fwd, dist)| (if fwd { off as i64 + dist as i64 } else { off as i64 - dist as i64 }, dist));
        let d = Dec { off, m, r: r.iter().map(|x| x.0 as u64).collect(), idx, args: args.map(|a| a.iter().map(|x| x.0 as u64).collect()), u8v, tgt };
        if let Some(last) = self.runs.last_mut() {
            if d.tgt.is_none() && last.d.m == d.m && last.d.r == d.r && last.d.idx == d.idx && last.d.args == d.args && last.d.u8v == d.u8v {
                let last_off = last.d.off as u64 + (last.count as u64 - 1) * last.spacing as u64;
                if (off as u64) > last_off {
                    let sp = (off as u64 - last_off) as u32;
                    if last.count == 1 {
                        last.spacing = sp;
                        last.count = 2;
                        return;
                    } else if sp == last.spacing {
                        last.count += 1;
                        return;
                    }
                }
            }
        }
        if self.runs.len() >= MAX_RUNS {
            self.overflow = true;
            return;
        }
        self.runs.push(Run { d, count: 1, spacing: 0 });
    }
}

macro_rules! v3 {
    ($($f:ident => $m:ident),* $(,)?) => { $( fn $f(&mut self, a: Register, b: Register, c: Register) { self.push(M::$m, &[a, b, c], None, None, None, None); } )* };
}
macro_rules! v2 {
    ($($f:ident => $m:ident),* $(,)?) => { $( fn $f(&mut self, a: Register, b: Register) { self.push(M::$m, &[a, b], None, None, None, None); } )* };
}
macro_rules! v1 {
    ($($f:ident => $m:ident),* $(,)?) => { $( fn $f(&mut self, a: Register) { self.push(M::$m, &[a], None, None, None, None); } )* };
}
macro_rules! v2i {
    ($($f:ident => $m:ident),* $(,)?) => { $( fn $f(&mut self, a: Register, b: Register, i: ConstPoolIdx) { self.push(M::$m, &[a, b], Some(i.0), None, None, None); } )* };
}
macro_rules! v1i {
    ($($f:ident => $m:ident),* $(,)?) => { $( fn $f(&mut self, a: Register, i: ConstPoolIdx) { self.push(M::$m, &[a], Some(i.0), None, None, None); } )* };
}
macro_rules! vg {
    ($($f:ident => $m:ident),* $(,)?) => { $( fn $f(&mut self, a: Register, g: GlobalId) { self.push(M::$m, &[a], Some(g.index_as_u32()), None, None, None); } )* };
}
macro_rules! vinv {
    ($($f:ident => $m:ident),* $(,)?) => { $( fn $f(&mut self, a: Register, i: ConstPoolIdx, args: Vec<Register>) { self.push(M::$m, &[a], Some(i.0), Some(args), None, None); } )* };
}

impl BytecodeVisitor for Collect {
    fn visit_instruction(&mut self, offset: BytecodeOffset) {
        let off = offset.to_u32();
        if self.cur.is_some() && self.order_error.is_none() {
            self.order_error = Some(format!("visit_instruction({off}) called twice without an instruction in between"));
        }
        match self.prev {
            None => {
                if off != 0 && self.order_error.is_none() {
                    self.order_error = Some(format!("first instruction reported at offset {off}, not 0"));
                }
            }
            Some(p) => {
                if off <= p && self.order_error.is_none() {
                    self.order_error = Some(format!("instruction offsets not strictly increasing: {p} then {off}"));
                }
            }
        }
        self.prev = Some(off);
        self.cur = Some(off);
    }

    v3! {
        visit_add => Add, visit_and => And, visit_or => Or, visit_xor => Xor, visit_div => Div, visit_mod => Mod,
        visit_checked_add => CheckedAdd, visit_checked_sub => CheckedSub, visit_checked_mul => CheckedMul,
        visit_checked_div => CheckedDiv, visit_checked_mod => CheckedMod, visit_mul => Mul, visit_shl => Shl, visit_shr => Shr,
        visit_sar => Sar, visit_sub => Sub, visit_test_identity => TestIdentity, visit_test_eq => TestEq, visit_test_ne => TestNe,
        visit_test_gt => TestGt, visit_test_ge => TestGe, visit_test_lt => TestLt, visit_test_le => TestLe,
        visit_store_array => StoreArray, visit_load_array => LoadArray, visit_get_array_ref => GetArrayRef,
    }
    v2! {
        visit_not => Not, visit_checked_neg => CheckedNeg, visit_neg => Neg, visit_mov => Mov, visit_array_length => ArrayLength,
        visit_store_ref => StoreRef, visit_load_ref => LoadRef, visit_get_register_ref => GetRegisterRef,
    }
    v1! { visit_const_true => ConstTrue, visit_const_false => ConstFalse, visit_ret => Ret }
    v2i! {
        visit_load_field => LoadField, visit_store_field => StoreField, visit_load_enum_element => LoadEnumElement,
        visit_load_enum_variant => LoadEnumVariant, visit_new_array => NewArray, visit_new_trait_object => NewTraitObject,
        visit_get_field_ref => GetFieldRef,
    }
    vg! { visit_load_global => LoadGlobal, visit_store_global => StoreGlobal, visit_get_global_ref => GetGlobalRef }
    fn visit_load_const(&mut self, a: Register, c: ConstId) {
        self.push(M::LoadConst, &[a], Some(c.index_as_u32()), None, None, None);
    }
    v1i! {
        visit_const_char => ConstChar, visit_const_int32 => ConstInt32, visit_const_int64 => ConstInt64,
        visit_const_float32 => ConstFloat32, visit_const_float64 => ConstFloat64, visit_const_string => ConstString,
        visit_switch => Switch,
    }
    fn visit_const_uint8(&mut self, a: Register, v: u8) {
        self.push(M::ConstUInt8, &[a], None, None, Some(v), None);
    }
    fn visit_jump_if_false(&mut self, a: Register, offset: u32) {
        self.push(M::JumpIfFalse, &[a], None, None, None, Some((true, offset)));
    }
    fn visit_jump_if_true(&mut self, a: Register, offset: u32) {
        self.push(M::JumpIfTrue, &[a], None, None, None, Some((true, offset)));
    }
    fn visit_jump(&mut self, offset: u32) {
        self.push(M::Jump, &[], None, None, None, Some((true, offset)));
    }
    fn visit_jump_loop(&mut self, offset: u32) {
        self.push(M::JumpLoop, &[], None, None, None, Some((false, offset)));
    }
    fn visit_loop_start(&mut self) {
        self.push(M::LoopStart, &[], None, None, None, None);
    }
    vinv! {
        visit_invoke_direct => InvokeDirect, visit_invoke_virtual => InvokeVirtual, visit_invoke_static => InvokeStatic,
        visit_invoke_generic_static => InvokeGenericStatic, visit_invoke_generic_direct => InvokeGenericDirect,
        visit_new_object => NewObject, visit_new_tuple => NewTuple, visit_new_enum => NewEnum, visit_new_struct => NewStruct,
    }
}

// ---------------------------------------------------------------------------
// Comparison

pub const BOUNDS: [u32; 4] = [1 << 7, 1 << 14, 1 << 21, 1 << 28];

#[derive(Default, Clone, Debug)]
pub struct Kind {
    pub max: u32,
    pub seen: bool,
    /// bit 2i: value BOUNDS[i]-1 seen, bit 2i+1: value BOUNDS[i] seen
    pub exact: u8,
}

impl Kind {
    pub fn note(&mut self, v: u32) {
        self.seen = true;
        self.max = self.max.max(v);
        for (i, b) in BOUNDS.iter().enumerate() {
            if v == b - 1 {
                self.exact |= 1 << (2 * i);
            }
            if v == *b {
                self.exact |= 1 << (2 * i + 1);
            }
        }
    }
}

#[derive(Default, Clone, Debug)]
pub struct Tally {
    pub reg: Kind,
    pub pool: Kind,
    pub id: Kind,
    pub back: Kind,
    pub fwd: Kind,
    pub argc: Kind,
    pub table_len: Kind,
    pub code_len: usize,
    pub pool_len: usize,
    pub instructions: u64,
    pub locations: usize,
    pub loc_dedup: u64,
    pub tables: u32,
    pub jumps_to_end: u32,
    pub self_loops: u32,
    pub nan_payload: u32,
    pub astral_char: u32,
    pub multibyte_str: u32,
    pub empty_str: u32,
    pub int_extreme: u32,
    pub size_model_ok: bool,
}

pub type Fail = (String, String);

fn fail<T>(key: &str, msg: String) -> Result<T, Fail> {
    Err((key.to_string(), msg))
}

fn show_item(it: &Item) -> String {
    item_json(it).to_string()
}

fn show_dec(d: &Dec) -> String {
    format!(
        "{}{{off:{}, regs:{:?}{}{}{}{}}}",
        d.m.name(),
        d.off,
        d.r,
        d.idx.map(|i| format!(", idx:{i}")).unwrap_or_default(),
        d.args.as_ref().map(|a| format!(", args({}):{:?}", a.len(), a)).unwrap_or_default(),
        d.u8v.map(|v| format!(", u8:{v}")).unwrap_or_default(),
        d.tgt.map(|(t, dist)| format!(", distance:{dist} -> offset {t}")).unwrap_or_default()
    )
}

/// Does the decoded instruction carry the operands of `it` (jump targets are checked separately)?
fn same_operands(it: &Item, want_idx: Option<u32>, d: &Dec) -> bool {
    if it.m != d.m || it.r.len() != d.r.len() || it.r.iter().zip(d.r.iter()).any(|(a, b)| *a as u64 != *b) {
        return false;
    }
    let sh = it.m.shape();
    let exp_idx = match sh {
        Shape::R2I | Shape::INV | Shape::RG | Shape::RC => Some(it.idx),
        Shape::SW => want_idx,
        Shape::Lit => {
            if it.m == M::ConstUInt8 {
                None
            } else {
                want_idx
            }
        }
        _ => None,
    };
    if exp_idx != d.idx {
        return false;
    }
    if sh == Shape::INV {
        match &d.args {
            Some(a) => {
                if a.len() != it.args.len() || a.iter().zip(it.args.iter()).any(|(x, y)| *x != *y as u64) {
                    return false;
                }
            }
            None => return false,
        }
    } else if d.args.is_some() {
        return false;
    }
    let exp_u8 = match (&it.m, &it.lit) {
        (M::ConstUInt8, Lit::U8(v)) => Some(*v),
        _ => None,
    };
    if exp_u8 != d.u8v {
        return false;
    }
    let is_jump = matches!(sh, Shape::JF | Shape::J | Shape::JL);
    is_jump == d.tgt.is_some()
}

fn where_is(off: i64, item_off: &[u32]) -> String {
    match item_off.iter().position(|&o| o as i64 == off) {
        Some(i) if i + 1 == item_off.len() => "the end of the code".to_string(),
        Some(i) => format!("the start of item {i}"),
        None => "not the start of any item".to_string(),
    }
}

pub fn check(case: &Case, body: &BytecodeBody, der: &Derived, col: &Collect) -> Result<Tally, Fail> {
    let n = case.items.len();
    let code = body.code();
    let pool = body.const_pool_entries();
    let mut t = Tally::default();
    t.code_len = code.len();
    t.pool_len = pool.len();
    t.instructions = col.total;

    if let Some(e) = &col.order_error {
        return fail("offset-order", e.clone());
    }
    if col.overflow {
        return fail("instr-count", format!("reader reported {} instructions in more than {MAX_RUNS} distinct runs; {} calls were written", col.total, case.calls()));
    }

    // ---- phase 1: same instruction sequence, operand by operand
    let mut item_off: Vec<u32> = vec![0; n + 1];
    let mut item_run: Vec<usize> = vec![0; n];
    let mut ri = 0usize;
    let mut used = 0u32;
    let mut call_no = 0u64;
    for (k, it) in case.items.iter().enumerate() {
        let mut need = it.rep;
        let mut first = true;
        while need > 0 {
            let Some(run) = col.runs.get(ri) else {
                return fail(
                    "instr-count",
                    format!("reader reported {} instructions, writer was called {} times; first missing: call {} = item {k} {}", col.total, case.calls(), call_no, show_item(it)),
                );
            };
            if !same_operands(it, der.pool_idx[k], &run.d) {
                let mut shown = run.d.clone();
                shown.off = (run.d.off as u64 + used as u64 * run.spacing as u64) as u32;
                return fail(
                    &format!("instr-mismatch:{}", it.m.name()),
                    format!(
                        "call {call_no} (item {k}) written as {}{} reads back as {}",
                        show_item(it),
                        der.pool_idx[k].map(|i| format!(" [pool entry {i}]")).unwrap_or_default(),
                        show_dec(&shown)
                    ),
                );
            }
            let take = need.min(run.count - used);
            if first {
                item_off[k] = (run.d.off as u64 + used as u64 * run.spacing as u64) as u32;
                item_run[k] = ri;
                first = false;
            }
            used += take;
            need -= take;
            call_no += take as u64;
            if used == run.count {
                ri += 1;
                used = 0;
            }
        }
        OPCODES_SEEN[it.m.opcode_u8() as usize].fetch_add(it.rep as u64, Ordering::Relaxed);
    }
    if ri < col.runs.len() {
        return fail(
            "instr-count",
            format!("reader reported {} instructions, writer was called {} times; first extra: {}", col.total, case.calls(), show_dec(&col.runs[ri].d)),
        );
    }
    item_off[n] = code.len() as u32;
    if code.len() > u32::MAX as usize {
        return fail("harness", "code longer than u32".into());
    }

    // ---- phase 2: reader offsets == writer offsets (probe table), opcode byte at every item start
    match pool.get(der.probe_idx as usize) {
        Some(ConstPoolEntry::JumpTable { targets, default_target }) => {
            if targets.len() != n {
                return fail("jump-table", format!("probe jump table written with {n} targets has {}", targets.len()));
            }
            for k in 0..n {
                if targets[k] != item_off[k] {
                    return fail(
                        "offset-mismatch",
                        format!(
                            "item {k} ({}): a label defined right before the emit call resolves to offset {}, the reader reports the instruction at offset {}",
                            case.items[k].m.name(),
                            targets[k],
                            item_off[k]
                        ),
                    );
                }
            }
            if *default_target as usize != code.len() {
                return fail(
                    "offset-mismatch",
                    format!("a label defined after the last emit call resolves to offset {default_target}, the code is {} bytes long (sum of instruction lengths)", code.len()),
                );
            }
        }
        other => return fail("const-pool", format!("probe jump table at pool index {} reads back as {:?}", der.probe_idx, other)),
    }
    for k in 0..n {
        let op = body.read_opcode(BytecodeOffset(item_off[k]));
        if u8::from(op) != case.items[k].m.opcode_u8() {
            return fail("opcode-at-offset", format!("item {k}: read_opcode({}) = opcode {}, written {}", item_off[k], u8::from(op), case.items[k].m.name()));
        }
    }

    // ---- phase 3: jump targets
    let mut size_ok = true;
    let mut pool_len_model = case.prefill;
    for (k, it) in case.items.iter().enumerate() {
        let d = &col.runs[item_run[k]].d;
        for &r in &it.r {
            t.reg.note(r);
        }
        for &a in &it.args {
            t.reg.note(a);
        }
        match it.m.shape() {
            Shape::R2I | Shape::INV => t.pool.note(it.idx),
            Shape::RG | Shape::RC => t.id.note(it.idx),
            _ => {}
        }
        if it.m.shape() == Shape::INV {
            t.argc.note(it.args.len() as u32);
        }
        if let Some(i) = der.pool_idx[k] {
            t.pool.note(i);
        }
        match it.m.shape() {
            Shape::JF | Shape::J | Shape::JL => {
                let (abs, dist) = d.tgt.unwrap();
                let want = item_off[it.target] as i64;
                if abs != want {
                    return fail(
                        &format!("jump-target:{}", it.m.name()),
                        format!(
                            "item {k} at offset {} written as {} to a label bound at item {} (offset {want}) reads back with distance {dist} -> offset {abs}, which is {}",
                            item_off[k],
                            it.m.name(),
                            it.target,
                            where_is(abs, &item_off)
                        ),
                    );
                }
                if it.m.shape() == Shape::JL {
                    t.back.note(dist);
                    if dist == 0 {
                        t.self_loops += 1;
                    }
                } else {
                    t.fwd.note(dist);
                    if it.target == n {
                        t.jumps_to_end += 1;
                    }
                }
            }
            Shape::SW => {
                let pi = der.pool_idx[k].unwrap();
                match pool.get(pi as usize) {
                    Some(ConstPoolEntry::JumpTable { targets, default_target }) => {
                        if targets.len() != it.table.len() {
                            return fail("jump-table", format!("item {k}: jump table written with {} targets has {}", it.table.len(), targets.len()));
                        }
                        for (j, (&got, &ti)) in targets.iter().zip(it.table.iter()).enumerate() {
                            if got != item_off[ti] {
                                return fail(
                                    "jump-table",
                                    format!(
                                        "item {k} (switch, pool entry {pi}): target {j} written as a label bound at item {ti} (offset {}) reads back as offset {got}, which is {}",
                                        item_off[ti],
                                        where_is(got as i64, &item_off)
                                    ),
                                );
                            }
                        }
                        if *default_target != item_off[it.default] {
                            return fail(
                                "jump-table",
                                format!(
                                    "item {k} (switch, pool entry {pi}): default target written as a label bound at item {} (offset {}) reads back as offset {default_target}, which is {}",
                                    it.default,
                                    item_off[it.default],
                                    where_is(*default_target as i64, &item_off)
                                ),
                            );
                        }
                        t.tables += 1;
                        t.table_len.note(targets.len() as u32);
                    }
                    other => return fail("const-pool", format!("item {k}: switch refers to pool entry {pi} which reads back as {:?}", other)),
                }
            }
            _ => {}
        }
        // informational: does the documented encoding (1 opcode byte, LEB128 operands, u32 forward distance) predict the length?
        let len = (item_off[k + 1] - item_off[k]) as u64;
        let dist_len = if it.m.shape() == Shape::JL { varint_len(d.tgt.map(|x| x.1).unwrap_or(0)) as u64 } else { 0 };
        let model = (crate::cgen::enc_size(it, pool_len_model) as u64 + dist_len) * it.rep as u64;
        if len != model {
            size_ok = false;
        }
        if der.pool_idx[k].is_some() {
            pool_len_model += 1;
        }
    }
    t.size_model_ok = size_ok;

    // ---- phase 4: constant pool
    let want_len = case.prefill as usize + der.pool_owner.len();
    if pool.len() != want_len {
        return fail("const-pool", format!("{} pool entries were added, the body has {}", want_len, pool.len()));
    }
    let empty = BytecodeTypeArray::empty();
    for i in 0..case.prefill {
        let w = filler(i, &empty);
        if !entry_eq(&w, &pool[i as usize]) {
            return fail("const-pool", format!("pool entry {i} written as {:?} reads back as {:?}", w, pool[i as usize]));
        }
    }
    for (j, owner) in der.pool_owner.iter().enumerate() {
        let i = case.prefill as usize + j;
        let Some(k) = owner else { continue }; // probe: checked above
        let it = &case.items[*k];
        if it.m == M::Switch {
            continue; // checked above
        }
        let w = lit_entry(&it.lit).expect("literal");
        if !entry_eq(&w, &pool[i]) {
            return fail(
                &format!("const-pool:{}", it.m.name()),
                format!("item {k} ({}) wrote pool entry {i} = {}, it reads back as {}", it.m.name(), show_entry(&w), show_entry(&pool[i])),
            );
        }
        match &it.lit {
            Lit::F32(b) if f32::from_bits(*b).is_nan() => t.nan_payload += 1,
            Lit::F64(b) if f64::from_bits(*b).is_nan() => t.nan_payload += 1,
            Lit::Char(c) if *c > 0xffff => t.astral_char += 1,
            Lit::Str(s) if s.is_empty() => t.empty_str += 1,
            Lit::Str(s) if !s.is_ascii() => t.multibyte_str += 1,
            Lit::I32(v) if *v == i32::MIN || *v == i32::MAX => t.int_extreme += 1,
            Lit::I64(v) if *v == i64::MIN || *v == i64::MAX => t.int_extreme += 1,
            _ => {}
        }
    }

    // ---- phase 5: registers
    let regs = body.registers();
    if regs.len() != case.nregs as usize {
        return fail("registers", format!("{} registers were added, the body has {}", case.nregs, regs.len()));
    }
    for (i, r) in regs.iter().enumerate() {
        if *r != reg_type(i as u32) {
            return fail("registers", format!("register {i} added as {:?} reads back as {:?}", reg_type(i as u32), r));
        }
    }

    // ---- phase 6: location table
    let mut want: Vec<(u32, (u32, u32))> = vec![];
    for (k, it) in case.items.iter().enumerate() {
        if !it.m.needs_location() {
            continue;
        }
        let loc = it.loc.expect("location");
        // copies after the first repeat the location of the first and are never recorded again
        t.loc_dedup += it.rep as u64 - 1;
        if want.last().map(|(_, l)| *l) == Some(loc) {
            t.loc_dedup += 1;
            continue;
        }
        want.push((item_off[k], loc));
    }
    let got = body.locations();
    t.locations = got.len();
    if got.len() != want.len() || got.iter().zip(want.iter()).any(|((o, l), (wo, wl))| o.to_u32() != *wo || (l.line(), l.column()) != *wl) {
        let i = got.iter().zip(want.iter()).position(|((o, l), (wo, wl))| o.to_u32() != *wo || (l.line(), l.column()) != *wl).unwrap_or(got.len().min(want.len()));
        return fail(
            "location-table",
            format!(
                "location table differs at entry {i}: expected {:?}, found {:?} (expected {} entries, found {})",
                want.get(i),
                got.get(i).map(|(o, l)| (o.to_u32(), (l.line(), l.column()))),
                want.len(),
                got.len()
            ),
        );
    }
    for (k, it) in case.items.iter().enumerate() {
        if it.m.needs_location() {
            let l = body.offset_location(item_off[k]);
            if Some((l.line(), l.column())) != it.loc {
                return fail("location-lookup", format!("item {k} ({}) emitted at {:?}: offset_location({}) = {}:{}", it.m.name(), it.loc, item_off[k], l.line(), l.column()));
            }
        }
    }
    Ok(t)
}

fn show_entry(e: &ConstPoolEntry) -> String {
    match e {
        ConstPoolEntry::Float32(v) => format!("Float32(bits {:#010x})", v.to_bits()),
        ConstPoolEntry::Float64(v) => format!("Float64(bits {:#018x})", v.to_bits()),
        ConstPoolEntry::Char(c) => format!("Char(U+{:04X})", *c as u32),
        other => format!("{other:?}"),
    }
}

pub fn read_body(body: &BytecodeBody) -> Collect {
    let mut col = Collect::new();
    read(body.code(), &mut col);
    col
}
