//! vbc — C18 (bytecode clause): every bytecode function written with `BytecodeWriter` reads back
//! through the bytecode reader as the instruction sequence it was written as.
//!
//! `vbc quick|thorough|--replay <file>|--minimize <file>`; evidence in /verif/evidence/parts/C18.json
//! (the main C18 check merges it).

mod alloc;
mod cgen;
mod model;
mod oracle;

use model::*;
use oracle::*;
use serde_json::{Value, json};
use std::collections::BTreeSet;
use std::sync::atomic::Ordering;
use vh::vcore::*;

#[global_allocator]
static ALLOC: alloc::Caching = alloc::Caching;

/// Cases that need hundreds of MB inside the writer run one at a time (they reuse each other's blocks).
static HUGE: std::sync::Mutex<()> = std::sync::Mutex::new(());

pub struct RoundTrip {
    name: &'static str,
}

const SUB_RANDOM: &str = "bytecode-roundtrip";
const SUB_SYSTEMATIC: &str = "bytecode-roundtrip-systematic";

fn ge_name(b: u32) -> &'static str {
    match b {
        128 => "128",
        16384 => "16384",
        0x20_0000 => "2^21",
        _ => "2^28",
    }
}

fn kind_classes(o: &mut Vec<String>, name: &str, k: &Kind) {
    if !k.seen {
        return;
    }
    for (i, b) in BOUNDS.iter().enumerate() {
        if k.max >= *b {
            o.push(format!("{name}>={}", ge_name(*b)));
        }
        if k.exact & (1 << (2 * i)) != 0 {
            o.push(format!("{name}={}", ["127", "16383", "2^21-1", "2^28-1"][i]));
        }
        if k.exact & (1 << (2 * i + 1)) != 0 {
            o.push(format!("{name}={}", ge_name(*b)));
        }
    }
    if k.max < BOUNDS[0] {
        o.push(format!("{name}<128-only"));
    }
}

impl Prop for RoundTrip {
    type Case = Case;
    fn name(&self) -> &str {
        self.name
    }
    fn generate(&self, c: &mut Choices) -> Case {
        cgen::generate(c)
    }
    fn eval(&self, case: &Case) -> Outcome {
        let h = hash64(&(case.nregs, case.prefill, &case.items));
        let _huge = if case.nregs >= 1 << 20 || case.prefill >= 1 << 20 || case.calls() >= 1 << 23 { Some(HUGE.lock().unwrap_or_else(|e| e.into_inner())) } else { None };
        let t0 = std::time::Instant::now();
        let prof = std::env::var("VBC_PROF").is_ok();
        let tick = |what: &str| {
            if prof && t0.elapsed().as_millis() > 20 {
                eprintln!("PROF {what} {:?} nregs={} prefill={} items={} calls={}", t0.elapsed(), case.nregs, case.prefill, case.items.len(), case.calls());
            }
        };
        // the writer and the reader are the code under test: a panic of either on a case that respects
        // the writer's documented preconditions is a failure of the property
        let (body, der) = match guarded(|| write_case(case)) {
            Ok(x) => x,
            Err(p) => {
                if p.message.starts_with("harness:") {
                    return Outcome { inconclusive: Some(format!("invalid case: {}", p.message)), hash: h, ..Default::default() };
                }
                return Outcome::fail(h, format!("writer-{}", p.key()), format!("BytecodeWriter panicked: {} at {}", p.message, p.location));
            }
        };
        tick("written");
        let col = match guarded(|| read_body(&body)) {
            Ok(c) => c,
            Err(p) => {
                return Outcome::fail(
                    h,
                    format!("reader-{}", p.key()),
                    format!("bytecode reader panicked on code the writer generated ({} bytes, {} calls): {} at {}", body.code().len(), case.calls(), p.message, p.location),
                );
            }
        };
        tick("read");
        let checked = check(case, &body, &der, &col);
        tick("checked");
        match checked {
            Err((k, m)) => Outcome::fail(h, k, m),
            Ok(t) => {
                let mut cl = vec![];
                kind_classes(&mut cl, "reg", &t.reg);
                kind_classes(&mut cl, "poolidx", &t.pool);
                kind_classes(&mut cl, "id", &t.id);
                kind_classes(&mut cl, "backdist", &t.back);
                kind_classes(&mut cl, "argc", &t.argc);
                kind_classes(&mut cl, "tablelen", &t.table_len);
                // forward distances are fixed-width: byte boundaries
                if t.fwd.seen {
                    for (b, n) in [(1u32 << 8, "256"), (1 << 16, "65536"), (1 << 24, "2^24")] {
                        if t.fwd.max >= b {
                            cl.push(format!("fwddist>={n}"));
                        }
                    }
                    if t.fwd.max < 256 {
                        cl.push("fwddist<256-only".into());
                    }
                }
                let widest = [&t.reg, &t.pool, &t.id, &t.back, &t.argc, &t.table_len].iter().filter(|k| k.seen).map(|k| k.max).max().unwrap_or(0);
                for b in BOUNDS {
                    if widest >= b {
                        cl.push(format!("wide>={}", ge_name(b)));
                    }
                }
                let mut o = Outcome::pass(h, widest >= 128);
                o.classes = cl;
                o.class_if(widest < 128, "narrow-only")
                    .class_if(t.tables > 0, "jump-table")
                    .class_if(t.jumps_to_end > 0, "forward-jump-to-end-of-code")
                    .class_if(t.self_loops > 0, "backward-jump-distance-0")
                    .class_if(t.back.seen, "backward-jump")
                    .class_if(t.fwd.seen, "forward-jump")
                    .class_if(t.argc.seen && case.items.iter().any(|i| i.m.shape() == Shape::INV && i.args.is_empty()), "invoke-0-args")
                    .class_if(t.argc.seen && case.items.iter().any(|i| i.m.shape() == Shape::INV && i.args.len() == 20), "invoke-20-args")
                    .class_if(t.nan_payload > 0, "float-nan-bit-pattern")
                    .class_if(t.astral_char > 0, "char-astral")
                    .class_if(t.multibyte_str > 0, "string-multi-byte")
                    .class_if(t.empty_str > 0, "string-empty")
                    .class_if(t.int_extreme > 0, "int-min-max")
                    .class_if(t.loc_dedup > 0, "location-repeated-not-recorded-twice")
                    .class_if(t.locations > 1, "location-table>1")
                    .class_if(t.code_len >= 1 << 21, "code>=2^21-bytes")
                    .class_if(t.size_model_ok, "length-as-LEB128-model-predicts")
                    .class_if(!t.size_model_ok, "length-differs-from-LEB128-model")
            }
        }
    }
    fn render(&self, case: &Case) -> Value {
        case_json(case)
    }
    fn from_rendered(&self, v: &Value) -> Option<Case> {
        case_from_json(v)
    }
    /// Drop items (chunks, then single items) while the failure stays, then shrink repeat counts,
    /// register count and pool prefill.
    fn minimize(&self, case: &Case, fails: &dyn Fn(&Case) -> bool) -> Option<Case> {
        let mut cur = case.clone();
        let mut budget = 1500usize;
        let mut changed = false;
        let mut chunk = (cur.items.len() / 2).max(1);
        loop {
            let mut i = 0;
            let mut progressed = false;
            while i < cur.items.len() && cur.items.len() > 1 && budget > 0 {
                let end = (i + chunk).min(cur.items.len());
                if end - i == cur.items.len() {
                    i = end;
                    continue;
                }
                let mut cand = cur.clone();
                for j in (i..end).rev() {
                    cand = cand.without(j);
                }
                budget -= 1;
                if fails(&cand) {
                    cur = cand;
                    progressed = true;
                    changed = true;
                } else {
                    i = end;
                }
            }
            if budget == 0 {
                break;
            }
            if chunk == 1 {
                if !progressed {
                    break;
                }
            } else {
                chunk = (chunk / 2).max(1);
            }
        }
        // repeat counts
        for k in 0..cur.items.len() {
            let mut lo = 1u32;
            while cur.items[k].rep > lo && budget > 0 {
                let mut cand = cur.clone();
                let mid = lo + (cand.items[k].rep - lo) / 2;
                cand.items[k].rep = mid;
                budget -= 1;
                if fails(&cand) {
                    cur = cand;
                    changed = true;
                } else {
                    lo = mid + 1;
                }
            }
        }
        // switch tables, argument lists
        for k in 0..cur.items.len() {
            while cur.items[k].table.len() > 0 && budget > 0 {
                let mut cand = cur.clone();
                cand.items[k].table.pop();
                budget -= 1;
                if fails(&cand) {
                    cur = cand;
                    changed = true;
                } else {
                    break;
                }
            }
            while cur.items[k].args.len() > 0 && budget > 0 {
                let mut cand = cur.clone();
                cand.items[k].args.pop();
                budget -= 1;
                if fails(&cand) {
                    cur = cand;
                    changed = true;
                } else {
                    break;
                }
            }
        }
        // registers / prefill: smallest that still covers the operands, then 1
        let max_reg = cur.items.iter().flat_map(|i| i.r.iter().chain(i.args.iter())).copied().max().unwrap_or(0);
        for nregs in [1, max_reg.saturating_add(1)] {
            if nregs < cur.nregs && budget > 0 {
                let mut cand = cur.clone();
                cand.nregs = nregs;
                budget -= 1;
                if fails(&cand) {
                    cur = cand;
                    changed = true;
                    break;
                }
            }
        }
        let max_idx = cur.items.iter().filter(|i| matches!(i.m.shape(), Shape::R2I | Shape::INV)).map(|i| i.idx).max().unwrap_or(0);
        for prefill in [0, 1, max_idx.saturating_add(1)] {
            if prefill < cur.prefill && budget > 0 {
                let mut cand = cur.clone();
                cand.prefill = prefill;
                budget -= 1;
                if fails(&cand) {
                    cur = cand;
                    changed = true;
                    break;
                }
            }
        }
        if changed {
            cur.kind = format!("{} (minimised)", case.kind);
            Some(cur)
        } else {
            None
        }
    }
}

/// `pub fn emit_*` methods of the writer, from its source.
fn source_emit_methods() -> Result<BTreeSet<String>, String> {
    let p = "/repo/dora-bytecode/src/writer.rs";
    let s = std::fs::read_to_string(p).map_err(|e| format!("cannot read {p}: {e}"))?;
    let mut out = BTreeSet::new();
    for l in s.lines() {
        if let Some(rest) = l.trim().strip_prefix("pub fn emit_") {
            let name: String = rest.chars().take_while(|c| c.is_ascii_alphanumeric() || *c == '_').collect();
            out.insert(name);
        }
    }
    if out.is_empty() {
        return Err(format!("no `pub fn emit_*` found in {p}"));
    }
    Ok(out)
}

fn main() {
    let args: Vec<String> = std::env::args().skip(1).collect();
    let code = match parse_mode_from(&args) {
        Mode::Replay(_, doc) => {
            let mut ctx = Ctx::new("C18", "quick");
            let p = RoundTrip { name: if doc["sub"].as_str() == Some(SUB_SYSTEMATIC) { SUB_SYSTEMATIC } else { SUB_RANDOM } };
            ctx.replay(&p, &doc)
        }
        Mode::Minimize(_, doc) => {
            let mut ctx = Ctx::new("C18", "quick");
            ctx.minimize_stored(&RoundTrip { name: SUB_RANDOM }, &doc, 3000)
        }
        Mode::Worker(w) if w == "bench" => {
            println!("size_of ConstPoolEntry={} BytecodeType={} Item={}", std::mem::size_of::<dora_bytecode::ConstPoolEntry>(), std::mem::size_of::<dora_bytecode::BytecodeType>(), std::mem::size_of::<Item>());
            {
                let t0 = std::time::Instant::now();
                let mut w = dora_bytecode::BytecodeWriter::new();
                for i in 0..(1u32 << 21) {
                    w.add_register(reg_type(i));
                }
                println!("2^21 add_register: {:?}", t0.elapsed());
                let t0 = std::time::Instant::now();
                let mut v = vec![];
                for i in 0..(1u32 << 21) {
                    v.push(reg_type(i));
                }
                println!("2^21 vec push: {:?} {}", t0.elapsed(), v.len());
                let t0 = std::time::Instant::now();
                let e = dora_bytecode::BytecodeTypeArray::empty();
                for i in 0..(1u32 << 21) {
                    w.add_const(filler(i, &e));
                }
                println!("2^21 add_const: {:?}", t0.elapsed());
                let t0 = std::time::Instant::now();
                let b = w.generate();
                println!("generate: {:?}", t0.elapsed());
                let t0 = std::time::Instant::now();
                drop(b);
                println!("drop: {:?}", t0.elapsed());
            }
            let p = RoundTrip { name: SUB_RANDOM };
            let mut pad = Item::new(M::LoopStart);
            pad.rep = 1 << 21;
            let mut jl = Item::new(M::JumpLoop);
            jl.target = 0;
            for (nregs, prefill, items) in [
                (1u32, 1u32, vec![Item::new(M::Add)]),
                (16384, 16384, vec![Item::new(M::Add)]),
                (1 << 21, 1, vec![Item::new(M::Add)]),
                (1, 1 << 21, vec![Item::new(M::Add)]),
                (1, 1, vec![pad.clone(), jl.clone()]),
            ] {
                let mut c = Case { nregs, prefill, items, kind: "bench".into() };
                c.normalize();
                let t0 = std::time::Instant::now();
                let o = p.eval(&c);
                println!(
                    "nregs={nregs} prefill={prefill} calls={} -> {:?} fail={:?} fresh={}MB reused={}MB",
                    c.calls(),
                    t0.elapsed(),
                    o.fail.map(|f| f.key),
                    alloc::FRESH_BYTES.load(Ordering::Relaxed) >> 20,
                    alloc::REUSED_BYTES.load(Ordering::Relaxed) >> 20
                );
            }
            0
        }
        Mode::Worker(_) => {
            eprintln!("usage: vbc quick|thorough|--replay <file>|--minimize <file>");
            2
        }
        Mode::Run(tier) => run(&tier),
    };
    std::process::exit(code);
}

fn run(tier: &str) -> i32 {
    // the main C18 check owns /verif/evidence/C18.json; this part writes next to it
    let evdir = std::env::var("VBC_EVIDENCE_DIR").unwrap_or_else(|_| "/verif/evidence/parts".to_string());
    let _ = std::fs::create_dir_all(&evdir);
    // SAFETY: single-threaded at this point
    unsafe { std::env::set_var("VERIF_EVIDENCE_DIR", &evdir) };

    let mut ctx = Ctx::new("C18", tier);
    start_watchdog(600, "C18");
    ctx.rule = "a case is a bytecode function given as a list of 1-400 BytecodeWriter::emit_* calls (an item may be N identical consecutive calls, used as padding), a register count (add_register) and a number of pre-existing constant-pool entries (add_const); labels are bound before (define_label: backward jumps, jump-table targets) or after (create_label + bind_label: forward jumps, jump-table targets) their use. The case is written with the real writer, generate()d, and read back with dora_bytecode::read through a BytecodeVisitor. Oracle: the reader reports exactly the written calls in order with the written operands (registers, pool indices incl. the index the writer assigned to literals / jump tables, global/const ids, argument lists, uint8 payload); every jump's start±distance and every jump-table entry is the offset of the item the label was bound at (or the end of the code); reported offsets start at 0 and are strictly increasing; the offset of every item equals the offset the writer resolves for a label defined right before the call (obtained through a probe jump table), the label defined after the last call equals the code length; read_opcode at every item start is the written opcode; constant pool (floats bitwise), register types and the location table (consecutive equal locations recorded once; offset_location of every located instruction) are what was written. Non-trivial = at least one LEB128-encoded operand (register, pool index, id, argument count, backward distance) >= 128; classes >= 16384, >= 2^21, >= 2^28 and exact boundary values counted separately per operand kind; distinct by content hash of the case.".into();
    ctx.assumptions = vec![
        "cases respect the preconditions the writer asserts: forward jumps only to labels not yet bound, emit_jump_loop only to bound labels, every label bound before generate(), set_location before every instruction whose opcode needs_location()".into(),
        "register operands and explicitly passed pool indices stay below the number of registers / pool entries of the function (what a front end emits); global and const ids are arbitrary u32".into(),
        "distances >= 2^28 (256 MiB of code) are exercised only by the thorough tier's systematic cases".into(),
    ];

    // ---- coverage of the writer's method list
    let table: BTreeSet<String> = M::ALL.iter().map(|m| m.name().to_string()).collect();
    match source_emit_methods() {
        Ok(src) => {
            let uncovered: Vec<&String> = src.difference(&table).collect();
            let stale: Vec<&String> = table.difference(&src).collect();
            ctx.extra.insert(
                "emit_methods".into(),
                json!({"in_writer_source": src.len(), "in_model": table.len(), "covered": src.intersection(&table).count(), "uncovered": uncovered, "model_only": stale}),
            );
            if !uncovered.is_empty() || !stale.is_empty() {
                let why = format!("model out of date with writer.rs: uncovered emit methods {uncovered:?}, unknown {stale:?}");
                println!("INCONCLUSIVE property=C18 {why}");
                ctx.inconclusive.push(why);
                ctx.extra.insert("hard_inconclusive".into(), json!(true));
            }
        }
        Err(e) => {
            println!("INCONCLUSIVE property=C18 {e}");
            ctx.inconclusive.push(e);
            ctx.extra.insert("hard_inconclusive".into(), json!(true));
        }
    }

    let random = RoundTrip { name: SUB_RANDOM };
    let systematic = RoundTrip { name: SUB_SYSTEMATIC };
    ctx.run_regressions(&random);
    ctx.run_regressions(&systematic);
    ctx.run_known_reproducers(&random);
    ctx.run_known_reproducers(&systematic);
    ctx.run_enum(&systematic, cgen::systematic(ctx.thorough()));
    let n = ctx.n(10_000, 400_000);
    ctx.run_search(&random, n, 4000, 300);

    // ---- every boundary class must have been exercised by the random search itself
    if ctx.violations.is_empty() {
        for kind in ["wide", "reg", "poolidx", "backdist"] {
            for b in ["128", "16384", "2^21"] {
                ctx.require_class(&format!("{SUB_RANDOM}/{kind}>={b}"));
            }
        }
        for c in ["id>=2^28", "jump-table", "forward-jump", "backward-jump", "fwddist>=256", "fwddist>=65536", "float-nan-bit-pattern", "char-astral", "string-multi-byte", "string-empty", "int-min-max", "invoke-0-args", "invoke-20-args"] {
            ctx.require_class(&format!("{SUB_RANDOM}/{c}"));
        }
        for c in ["reg=2^21", "poolidx=2^21", "backdist=2^21", "reg=2^21-1", "poolidx=2^21-1", "backdist=2^21-1", "id=2^28", "id=2^28-1"] {
            ctx.require_class(&format!("{SUB_SYSTEMATIC}/{c}"));
        }
    }
    let mut seen = serde_json::Map::new();
    let mut unseen = vec![];
    for &m in M::ALL {
        let n = OPCODES_SEEN[m.opcode_u8() as usize].load(Ordering::Relaxed);
        seen.insert(m.name().to_string(), json!(n));
        if n == 0 {
            unseen.push(m.name());
        }
    }
    ctx.extra.insert("opcodes_read_back".into(), json!({"distinct": M::ALL.len() - unseen.len(), "of": M::ALL.len(), "never": unseen, "instructions_per_method": seen}));
    if !unseen.is_empty() && ctx.violations.is_empty() {
        ctx.inconclusive.push(format!("methods never read back: {unseen:?}"));
        ctx.extra.insert("hard_inconclusive".into(), json!(true));
    }
    ctx.finish()
}
