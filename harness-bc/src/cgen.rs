//! Generator: choice sequence -> Case. All-zero choices give the simplest case (one `add r0, r0, r0`).

use crate::model::*;
use vh::vcore::Choices;

pub const B1: u32 = 1 << 7;
pub const B2: u32 = 1 << 14;
pub const B3: u32 = 1 << 21;
pub const B4: u32 = 1 << 28;

/// Encoded size of one call according to the documented encoding: opcode byte, LEB128 operands,
/// fixed u32 distance for forward jumps, raw byte for const_uint8. Only used to place padding (and
/// reported informationally); the oracle does not depend on it.
pub fn enc_size(it: &Item, pool_len: u32) -> u32 {
    let mut s = 1;
    for &r in &it.r {
        s += varint_len(r);
    }
    match it.m.shape() {
        Shape::R2I | Shape::RG | Shape::RC => s += varint_len(it.idx),
        Shape::INV => {
            s += varint_len(it.idx) + varint_len(it.args.len() as u32);
            for &a in &it.args {
                s += varint_len(a);
            }
        }
        Shape::Lit => {
            if it.m == M::ConstUInt8 {
                s += 1
            } else {
                s += varint_len(pool_len)
            }
        }
        Shape::SW => s += varint_len(pool_len),
        Shape::JF | Shape::J => s += 4,
        Shape::JL => s += 0, // distance added by the caller
        _ => {}
    }
    s
}

const CHARS: &[u32] = &[0x61, 0, 0x7f, 0x80, 0x7ff, 0x800, 0xd7ff, 0xe000, 0xffff, 0x10000, 0x1f600, 0x10ffff, 0xfffd];
const I32S: &[i32] = &[0, 1, -1, i32::MIN, i32::MAX, 127, 128, -128, -129, 0x7fff, 0x8000];
const I64S: &[i64] = &[0, 1, -1, i64::MIN, i64::MAX, i32::MIN as i64 - 1, i32::MAX as i64 + 1, 127, 128];
const F32S: &[u32] = &[0, 0x8000_0000, 0x3f80_0000, 0x7f80_0000, 0xff80_0000, 0x7fc0_0000, 0x7f80_0001, 0xffc0_0001, 0x7fff_ffff, 0xffff_ffff, 1, 0x7f7f_ffff];
const F64S: &[u64] = &[
    0,
    0x8000_0000_0000_0000,
    0x3ff0_0000_0000_0000,
    0x7ff0_0000_0000_0000,
    0xfff0_0000_0000_0000,
    0x7ff8_0000_0000_0000,
    0x7ff0_0000_0000_0001,
    0xfff8_0000_0000_0001,
    0x7fff_ffff_ffff_ffff,
    0xffff_ffff_ffff_ffff,
    1,
    0x7fef_ffff_ffff_ffff,
];
const STRS: &[&str] = &["a", "", "é", "日本語", "𝒳😀", "\0", "line\nbreak \"quoted\" \\", "\u{feff}bom", "a\u{301}", "\u{10ffff}"];
const SEGS: &[&str] = &["", "a", "Z", "é", "ß", "日", "😀", "𝒳", "\0", "\n", "\"", " ", "\u{7f}", "\u{80}", "\u{7ff}", "\u{800}", "\u{ffff}", "\u{10000}"];
const LOCS: &[(u32, u32)] = &[(1, 1), (1, 1), (2, 5), (1, 2), (0, 0), (u32::MAX, u32::MAX), (3, 1), (65536, 255), (127, 128)];

struct G<'a, 'b> {
    c: &'a mut Choices<'b>,
    nregs: u32,
    prefill: u32,
    items: Vec<Item>,
    /// model of the pool length while emitting (prefill + entries created by the items so far)
    pool_len: u32,
    /// jump items whose target is drawn when the final length is known
    wild: Vec<usize>,
}

fn near(c: &mut Choices, centre: u32, limit: u32) -> Option<u32> {
    // centre-2 ..= centre+1 : both sides of the boundary between centre-1 and centre
    let v = centre - 2 + c.below(4) as u32;
    if v < limit { Some(v) } else { None }
}

impl<'a, 'b> G<'a, 'b> {
    /// index below `limit` (>= 1), biased to both sides of every varint boundary that fits
    fn pick_below(&mut self, limit: u32) -> u32 {
        let limit = limit.max(1);
        match self.c.weighted(&[4, 4, 2, 1]) {
            0 => self.c.below(limit.min(8) as usize) as u32,
            1 => {
                let mut cands = vec![];
                for b in [B1, B2, B3] {
                    if limit > b - 2 {
                        cands.push(b);
                    }
                }
                if cands.is_empty() {
                    return limit - 1 - self.c.below(limit.min(3) as usize) as u32;
                }
                // the largest boundary that fits is the rarest one: prefer it
                let b = if self.c.chance(1, 2) { *cands.last().unwrap() } else { *self.c.pick(&cands) };
                near(self.c, b, limit).unwrap_or(limit - 1)
            }
            2 => limit - 1 - self.c.below(limit.min(4) as usize) as u32,
            _ => self.c.below(limit as usize) as u32,
        }
    }
    fn reg(&mut self) -> u32 {
        self.pick_below(self.nregs)
    }
    fn pool_idx(&mut self) -> u32 {
        self.pick_below(self.pool_len)
    }
    fn id(&mut self) -> u32 {
        match self.c.weighted(&[4, 4, 1]) {
            0 => self.c.below(8) as u32,
            1 => *self.c.pick(&[B1 - 1, B1, B2 - 1, B2, B3 - 1, B3, B4 - 1, B4, u32::MAX, u32::MAX - 1, B1 + 1, B2 + 1, B3 + 1, B4 + 1]),
            _ => self.c.raw(),
        }
    }
    fn loc(&mut self) -> (u32, u32) {
        if self.c.chance(1, 8) {
            (self.c.raw(), self.c.raw())
        } else {
            *self.c.pick(LOCS)
        }
    }
    fn lit(&mut self, m: M) -> Lit {
        let raw = self.c.chance(1, 4);
        match m {
            M::ConstUInt8 => Lit::U8(if raw { self.c.below(256) as u8 } else { *self.c.pick(&[0u8, 1, 127, 128, 255, 0x80, 0xfe]) }),
            M::ConstChar => {
                let v = if raw { self.c.raw() % 0x11_0000 } else { *self.c.pick(CHARS) };
                Lit::Char(if char::from_u32(v).is_some() { v } else { 0xfffd })
            }
            M::ConstInt32 => Lit::I32(if raw { self.c.raw() as i32 } else { *self.c.pick(I32S) }),
            M::ConstInt64 => Lit::I64(if raw { self.c.u64() as i64 } else { *self.c.pick(I64S) }),
            M::ConstFloat32 => Lit::F32(if raw { self.c.raw() } else { *self.c.pick(F32S) }),
            M::ConstFloat64 => Lit::F64(if raw { self.c.u64() } else { *self.c.pick(F64S) }),
            _ => {
                if raw {
                    let n = self.c.below(12);
                    let mut s = String::new();
                    for _ in 0..n {
                        s.push_str(self.c.pick_str(SEGS));
                    }
                    if self.c.chance(1, 10) {
                        let unit = if s.is_empty() { "x".to_string() } else { s.clone() };
                        let target = *self.c.pick(&[127usize, 128, 255, 256, 300, 16384]);
                        while s.len() < target {
                            s.push_str(&unit);
                        }
                    }
                    Lit::Str(s)
                } else {
                    Lit::Str(self.c.pick_str(STRS).to_string())
                }
            }
        }
    }

    /// any method without a label
    fn plain(&mut self) -> Item {
        static PLAIN: std::sync::OnceLock<Vec<M>> = std::sync::OnceLock::new();
        let plain = PLAIN.get_or_init(|| M::ALL.iter().copied().filter(|m| !matches!(m.shape(), Shape::JF | Shape::J | Shape::JL | Shape::SW)).collect());
        let m = plain[self.c.below(plain.len())];
        self.plain_of(m)
    }

    fn plain_of(&mut self, m: M) -> Item {
        let mut it = Item::new(m);
        for i in 0..it.r.len() {
            it.r[i] = self.reg();
        }
        match m.shape() {
            Shape::R2I => it.idx = self.pool_idx(),
            Shape::RG | Shape::RC => it.idx = self.id(),
            Shape::INV => {
                it.idx = self.pool_idx();
                let argc = match self.c.weighted(&[30, 30, 10, 1]) {
                    0 => self.c.below(4),
                    1 => 4 + self.c.below(17),
                    2 => *self.c.pick(&[0usize, 20, 1, 19]),
                    _ => *self.c.pick(&[127usize, 128, 129, 126]),
                };
                // one register drawn, the rest mostly consecutive like real argument lists, sometimes each drawn
                let scattered = self.c.chance(1, 3);
                let base = self.reg();
                for j in 0..argc {
                    let a = if scattered && argc <= 20 { self.reg() } else { (base as u64 + j as u64).min(self.nregs as u64 - 1) as u32 };
                    it.args.push(a);
                }
            }
            Shape::Lit => it.lit = self.lit(m),
            _ => {}
        }
        if m.needs_location() || self.c.chance(1, 6) {
            it.loc = Some(self.loc());
        }
        it
    }

    fn push(&mut self, it: Item) -> usize {
        if matches!(it.m.shape(), Shape::SW) || (it.m.shape() == Shape::Lit && it.m != M::ConstUInt8) {
            self.pool_len += 1;
        }
        self.items.push(it);
        self.items.len() - 1
    }

    fn size_of(&self, it: &Item) -> u64 {
        enc_size(it, self.pool_len) as u64 * it.rep as u64
    }

    /// append padding of exactly `bytes` bytes (according to the size model)
    fn pad(&mut self, mut bytes: u64) {
        if bytes == 0 {
            return;
        }
        if bytes > 64 && self.c.chance(1, 2) {
            // a run of some wider instruction first, loop_start for the remainder
            let m = *self.c.pick(&[M::Mov, M::Add, M::Ret, M::ConstTrue, M::LoadGlobal, M::ArrayLength, M::Shl]);
            let mut it = self.plain_of(m);
            let s = enc_size(&it, self.pool_len) as u64;
            let reps = (bytes / s).min(u32::MAX as u64);
            if reps > 0 {
                it.rep = reps as u32;
                bytes -= reps * s;
                self.push(it);
            }
        }
        if bytes > 0 {
            let mut it = Item::new(M::LoopStart);
            it.rep = bytes.min(u32::MAX as u64) as u32;
            self.push(it);
        }
    }

    fn body(&mut self) -> u64 {
        let k = self.c.below(6);
        let mut bytes = 0;
        for _ in 0..k {
            let it = self.plain();
            bytes += self.size_of(&it);
            self.push(it);
        }
        bytes
    }

    fn backward_gadget(&mut self) {
        let start = self.items.len();
        let mut bytes = self.body();
        let want = match self.c.weighted(&[200, 150, 100, 1]) {
            0 => None,
            1 => Some(B1),
            2 => Some(B2),
            _ => Some(B3),
        };
        if let Some(b) = want {
            let want = (b - 2 + self.c.below(5) as u32) as u64; // b-2 ..= b+2
            if want > bytes {
                self.pad(want - bytes);
                bytes = want;
            }
        }
        let _ = bytes;
        let mut j = Item::new(M::JumpLoop);
        j.target = start;
        if self.c.chance(1, 6) {
            j.loc = Some(self.loc());
        }
        self.push(j);
    }

    fn forward_gadget(&mut self) {
        let m = *self.c.pick(&[M::Jump, M::JumpIfFalse, M::JumpIfTrue]);
        let mut j = Item::new(m);
        if m != M::Jump {
            j.r[0] = self.reg();
        }
        if self.c.chance(1, 6) {
            j.loc = Some(self.loc());
        }
        let jsize = self.size_of(&j);
        let at = self.push(j);
        let mut bytes = jsize + self.body();
        let want = match self.c.weighted(&[400, 150, 150, 100, 100, 1, 1]) {
            0 => None,
            1 => Some(B1),
            2 => Some(1 << 8),
            3 => Some(B2),
            4 => Some(1 << 16),
            5 => Some(B3),
            _ => Some(1 << 24),
        };
        if let Some(b) = want {
            let want = (b - 2 + self.c.below(5) as u32) as u64;
            if want > bytes {
                self.pad(want - bytes);
                bytes = want;
            }
        }
        let _ = bytes;
        self.items[at].target = self.items.len();
    }

    fn switch_gadget(&mut self) {
        let mut s = Item::new(M::Switch);
        s.r[0] = self.reg();
        let len = match self.c.weighted(&[30, 30, 5]) {
            0 => self.c.below(4),
            1 => 4 + self.c.below(17),
            _ => *self.c.pick(&[126usize, 127, 128, 129, 300]),
        };
        s.table = vec![usize::MAX; len];
        s.default = usize::MAX;
        if self.c.chance(1, 6) {
            s.loc = Some(self.loc());
        }
        let at = self.push(s);
        self.wild.push(at);
    }

    fn wild_jump(&mut self) {
        let m = *self.c.pick(&[M::JumpLoop, M::Jump, M::JumpIfFalse, M::JumpIfTrue]);
        let mut j = Item::new(m);
        if j.r.len() == 1 {
            j.r[0] = self.reg();
        }
        j.target = usize::MAX;
        let at = self.push(j);
        self.wild.push(at);
    }
}

pub fn generate(c: &mut Choices) -> Case {
    let nregs = match c.weighted(&[300, 350, 300, 4]) {
        0 => 1 + c.below(8) as u32,
        1 => 120 + c.below(24) as u32,
        2 => B2 - 8 + c.below(16) as u32,
        _ => B3 - 4 + c.below(8) as u32,
    };
    let prefill = match c.weighted(&[300, 350, 300, 4]) {
        0 => 1 + c.below(4) as u32,
        1 => 118 + c.below(16) as u32,
        2 => B2 - 10 + c.below(16) as u32,
        _ => B3 - 6 + c.below(8) as u32,
    };
    let n = match c.weighted(&[4, 4, 3, 2]) {
        0 => 1 + c.below(8),
        1 => 9 + c.below(32),
        2 => 41 + c.below(110),
        _ => 151 + c.below(240),
    };
    let mut g = G { c, nregs, prefill, items: vec![], pool_len: prefill, wild: vec![] };
    while g.items.len() < n {
        match g.c.weighted(&[12, 3, 3, 2, 2]) {
            0 => {
                let it = g.plain();
                g.push(it);
            }
            1 => g.backward_gadget(),
            2 => g.forward_gadget(),
            3 => g.switch_gadget(),
            _ => g.wild_jump(),
        }
    }
    // targets that may point anywhere are drawn now that the length is known
    let len = g.items.len();
    let wild = std::mem::take(&mut g.wild);
    for at in wild {
        let any = |c: &mut Choices| -> usize {
            // bias to the neighbourhood, the start and the end
            match c.weighted(&[3, 1, 1, 2]) {
                0 => (at + c.below(8)).saturating_sub(3).min(len),
                1 => 0,
                2 => len,
                _ => c.below(len + 1),
            }
        };
        match g.items[at].m.shape() {
            Shape::SW => {
                for j in 0..g.items[at].table.len() {
                    g.items[at].table[j] = any(g.c);
                }
                g.items[at].default = any(g.c);
            }
            Shape::JL => g.items[at].target = at - g.c.below(at + 1).min(if g.c.chance(1, 2) { 6 } else { usize::MAX }),
            _ => {
                let span = len - at; // targets at+1 ..= len
                let d = 1 + g.c.below(span).min(if g.c.chance(1, 2) { 6 } else { usize::MAX });
                g.items[at].target = (at + d).min(len);
            }
        }
    }
    let mut case = Case { nregs: g.nregs, prefill: g.prefill, items: g.items, kind: "random".into() };
    case.normalize();
    case
}

// ---------------------------------------------------------------------------
// Systematic cases: every method with every operand on both sides of every boundary,
// exact jump distances around every boundary.

fn single(m: M, regs: &[u32], idx: u32, nregs: u32, prefill: u32, kind: &str) -> Case {
    let mut it = Item::new(m);
    for (i, r) in regs.iter().enumerate().take(it.r.len()) {
        it.r[i] = *r;
    }
    it.idx = idx;
    if m.shape() == Shape::INV {
        it.args = regs.to_vec();
    }
    let mut items = vec![it];
    match m.shape() {
        Shape::JF | Shape::J => items[0].target = 1,
        Shape::JL => items[0].target = 0,
        Shape::SW => {
            items[0].table = vec![0, 1, 0];
            items[0].default = 1;
        }
        _ => {}
    }
    let mut c = Case { nregs, prefill, items, kind: kind.into() };
    c.normalize();
    c
}

pub fn systematic(thorough: bool) -> Vec<Case> {
    let mut out = vec![];
    let vals = [0u32, B1 - 1, B1, B2 - 1, B2];
    for &m in M::ALL {
        for &v in &vals {
            // all operands at the value
            out.push(single(m, &[v, v, v], v, v + 1, v + 1, "systematic:all-operands"));
            // one operand position at a time
            for pos in 0..m.nregs() {
                let mut r = [0u32; 3];
                r[pos] = v;
                out.push(single(m, &r, 0, v + 1, 1, "systematic:one-register"));
            }
            if matches!(m.shape(), Shape::R2I | Shape::INV | Shape::RG | Shape::RC) {
                out.push(single(m, &[0, 0, 0], v, 1, v + 1, "systematic:index"));
            }
            // literal instructions and switch: the pool index the writer assigns is prefill
            if matches!(m.shape(), Shape::Lit | Shape::SW) {
                out.push(single(m, &[0, 0, 0], 0, 1, v, "systematic:assigned-index"));
            }
        }
        if matches!(m.shape(), Shape::RG | Shape::RC) {
            for v in [B3 - 1, B3, B4 - 1, B4, u32::MAX] {
                out.push(single(m, &[0, 0, 0], v, 1, 1, "systematic:id"));
            }
        }
    }
    // every method once in one function with operands on both sides of 2^21 (expensive: 2^21 registers and pool entries)
    {
        let v = B3;
        let mut items = vec![];
        for (i, &m) in M::ALL.iter().enumerate() {
            let mut c = single(m, &[v, v - 1, v - (i as u32 % 2)], v - (i as u32 % 2), v + 1, v + 1, "");
            items.push(c.items.remove(0));
        }
        let n = items.len();
        for (i, it) in items.iter_mut().enumerate() {
            match it.m.shape() {
                Shape::JF | Shape::J => it.target = n,
                Shape::JL => it.target = i / 2,
                Shape::SW => {
                    it.table = vec![0, n, i];
                    it.default = n - 1;
                }
                _ => {}
            }
        }
        // prefill chosen so that the indices the writer assigns to the literals straddle 2^21
        let mut c = Case { nregs: v + 1, prefill: B3 - 3, items, kind: "systematic:all-methods-2^21".into() };
        c.normalize();
        out.push(c);
    }
    // exact backward distances
    let mut back = vec![0u32, 1, B1 - 2, B1 - 1, B1, B1 + 1, B2 - 2, B2 - 1, B2, B2 + 1, B3 - 1, B3, B3 + 1];
    if thorough {
        back.extend([B4 - 1, B4]);
    }
    for d in back {
        let mut items = vec![];
        if d > 0 {
            let mut p = Item::new(M::LoopStart);
            p.rep = d;
            items.push(p);
        }
        let mut j = Item::new(M::JumpLoop);
        j.target = 0;
        items.push(j);
        items.push(Item::new(M::LoopStart));
        let mut c = Case { nregs: 1, prefill: 1, items, kind: "systematic:backward-distance".into() };
        c.normalize();
        out.push(c);
    }
    // exact forward distances (fixed-width u32: byte boundaries) for each of the three forward jumps
    for m in [M::Jump, M::JumpIfFalse, M::JumpIfTrue] {
        let mut fwd = vec![0u32, 1, B1 - 1, B1, 255, 256, 257, B2 - 1, B2, 65535, 65536, B3 - 1, B3, (1 << 24) - 1, 1 << 24];
        if thorough && m == M::Jump {
            fwd.push(B4);
        }
        for d in fwd {
            let j = Item::new(m);
            let jsize = enc_size(&j, 1);
            if d != 0 && d < jsize {
                continue;
            }
            let mut items = vec![j];
            // d == 0: smallest possible distance (label bound right after the jump)
            if d > jsize {
                let mut p = Item::new(M::LoopStart);
                p.rep = d - jsize;
                items.push(p);
            }
            items[0].target = items.len();
            if d % 2 == 0 {
                // also with an instruction after the target (target is not the end of the code)
                items.push(Item::new(M::Ret));
            }
            let mut c = Case { nregs: 1, prefill: 1, items, kind: "systematic:forward-distance".into() };
            c.normalize();
            out.push(c);
        }
    }
    // jump tables: sizes around 127/128, targets before/after/self/end, table index on both sides of the boundaries
    for len in [0usize, 1, 127, 128, 129, 1000] {
        for prefill in [0u32, B1 - 1, B1, B2 - 1, B2] {
            let mut items = vec![Item::new(M::LoopStart), Item::new(M::Switch), Item::new(M::LoopStart)];
            let mut p = Item::new(M::LoopStart);
            p.rep = 300;
            items.push(p);
            items.push(Item::new(M::Ret));
            let n = items.len();
            items[1].table = (0..len).map(|i| i % (n + 1)).collect();
            items[1].default = n;
            let mut c = Case { nregs: 1, prefill, items, kind: "systematic:jump-table".into() };
            c.normalize();
            out.push(c);
        }
    }
    out
}
